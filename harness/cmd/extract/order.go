package main

import (
	"fmt"
	"go/ast"
	"go/token"
	"path/filepath"
	"strings"
)

// types/date.go, types/HHmm.go, types/datetime.go → Gen/Order.lean (C16): the comparison methods, statement by
// statement. They are nests of `if a < b { return true }` / `if a == b { … }` over the calendar fields with a final
// `return false`, or one boolean expression; an `if` without `else` falls through to what follows it.

type cmpTr struct {
	file string
	env  map[string]string // Go accessor text → Lean term
}

func (t *cmpTr) atom(e ast.Expr) (string, bool) {
	if p, ok := e.(*ast.ParenExpr); ok {
		return t.atom(p.X)
	}
	v, ok := t.env[src(e)]
	return v, ok
}

func (t *cmpTr) cond(e ast.Expr) string {
	switch x := e.(type) {
	case *ast.ParenExpr:
		return t.cond(x.X)
	case *ast.BinaryExpr:
		if x.Op == token.LAND {
			return t.cond(x.X) + " && " + t.cond(x.Y)
		}
		a, ok1 := t.atom(x.X)
		b, ok2 := t.atom(x.Y)
		if ok1 && ok2 {
			switch x.Op {
			case token.LSS:
				return "decide (" + a + " < " + b + ")"
			case token.GTR:
				return "decide (" + a + " > " + b + ")"
			case token.EQL:
				return a + " == " + b
			}
		}
	}
	return unsupported(t.file, e)
}

// ifCond: the condition of an `if` (a Prop for `if … then … else`)
func (t *cmpTr) ifCond(e ast.Expr) string {
	if p, ok := e.(*ast.ParenExpr); ok {
		return t.ifCond(p.X)
	}
	if x, ok := e.(*ast.BinaryExpr); ok {
		a, ok1 := t.atom(x.X)
		b, ok2 := t.atom(x.Y)
		if ok1 && ok2 {
			switch x.Op {
			case token.LSS:
				return a + " < " + b
			case token.GTR:
				return a + " > " + b
			case token.EQL:
				return a + " = " + b
			}
		}
	}
	return unsupported(t.file, e)
}

func (t *cmpTr) block(sts []ast.Stmt, k string) string {
	if len(sts) == 0 {
		return k
	}
	switch s := sts[0].(type) {
	case *ast.IfStmt:
		if s.Init == nil && s.Else == nil {
			rest := t.block(sts[1:], k)
			return "(if " + t.ifCond(s.Cond) + " then " + t.block(s.Body.List, rest) + " else " + rest + ")"
		}
	case *ast.ReturnStmt:
		if len(s.Results) == 1 && len(sts) == 1 {
			if id, ok := s.Results[0].(*ast.Ident); ok && (id.Name == "true" || id.Name == "false") {
				return id.Name
			}
			return "(" + t.cond(s.Results[0]) + ")"
		}
	}
	return unsupported(t.file, sts[0])
}

func recvName(fn *ast.FuncDecl) string {
	if fn.Recv != nil && len(fn.Recv.List) == 1 && len(fn.Recv.List[0].Names) == 1 {
		return fn.Recv.List[0].Names[0].Name
	}
	return "?"
}

func param0(fn *ast.FuncDecl) string {
	if fn.Type.Params != nil && len(fn.Type.Params.List) == 1 && len(fn.Type.Params.List[0].Names) == 1 {
		return fn.Type.Params.List[0].Names[0].Name
	}
	return "?"
}

func genOrder(repo, out string) {
	var b strings.Builder
	b.WriteString("-- REGENERATED from types/date.go, types/HHmm.go, types/datetime.go by harness/cmd/extract; do not edit\n")
	b.WriteString("import Uhppote.Model.Order\n/-! The comparison methods, translated statement by statement. -/\nnamespace Uhppote.Gen.Order\nopen Uhppote.Model.Order\n\n")

	// --- Date.Before / After / Equals: p := time.Time(d); q := time.Time(date); …
	dpath := filepath.Join(repo, "types/date.go")
	df := parseFile(dpath)
	for _, m := range []struct{ goName, lean string }{{"Before", "dateBefore"}, {"After", "dateAfter"}, {"Equals", "dateEquals"}} {
		term := "unsupported_Date_" + m.goName
		if fn := findFunc(df, m.goName, "Date"); fn != nil && len(fn.Body.List) >= 3 {
			t := &cmpTr{file: dpath, env: map[string]string{}}
			ok := true
			for i, who := range []string{recvName(fn), param0(fn)} {
				as, isAs := fn.Body.List[i].(*ast.AssignStmt)
				if !isAs || as.Tok != token.DEFINE || len(as.Lhs) != 1 || len(as.Rhs) != 1 || src(as.Rhs[0]) != "time.Time("+who+")" {
					ok = false
					break
				}
				v := src(as.Lhs[0])
				l := []string{"p", "q"}[i]
				t.env[v+".Year()"], t.env[v+".Month()"], t.env[v+".Day()"] = l+".y", l+".m", l+".d"
			}
			if ok {
				term = t.block(fn.Body.List[2:], "unsupported_falls_off_the_end")
			}
		}
		fmt.Fprintf(&b, "/-- types/date.go `Date.%s` -/\ndef %s (p q : YMD) : Bool := %s\n\n", m.goName, m.lean, term)
	}

	// --- HHmm.Before / After: `return h.before(t)`; before / after: the `case HHmm:` clause of the type switch, then `return false`
	hpath := filepath.Join(repo, "types/HHmm.go")
	hf := parseFile(hpath)
	for _, m := range []struct{ goName, inner, lean string }{{"Before", "before", "hhmmBefore"}, {"After", "after", "hhmmAfter"}} {
		term := "unsupported_HHmm_" + m.goName
		outer := findFunc(hf, m.goName, "HHmm")
		inner := findFunc(hf, m.inner, "HHmm")
		if outer != nil && inner != nil && len(outer.Body.List) == 1 && src(outer.Body.List[0]) == "return "+recvName(outer)+"."+m.inner+"("+param0(outer)+")" &&
			len(inner.Body.List) == 2 {
			if sw, ok := inner.Body.List[0].(*ast.TypeSwitchStmt); ok {
				if as, ok := sw.Assign.(*ast.AssignStmt); ok && len(as.Lhs) == 1 && src(as.Rhs[0]) == param0(inner)+".(type)" {
					v, h := src(as.Lhs[0]), recvName(inner)
					for _, cc := range sw.Body.List {
						c := cc.(*ast.CaseClause)
						if len(c.List) == 1 && src(c.List[0]) == "HHmm" {
							t := &cmpTr{file: hpath, env: map[string]string{h + ".hours": "p.h", h + ".minutes": "p.m", v + ".hours": "q.h", v + ".minutes": "q.m"}}
							term = t.block(append(append([]ast.Stmt{}, c.Body...), inner.Body.List[1]), "unsupported_falls_off_the_end")
						}
					}
				}
			}
		}
		fmt.Fprintf(&b, "/-- types/HHmm.go `HHmm.%s` (the HHmm case of `%s`) -/\ndef %s (p q : HM) : Bool := %s\n\n", m.goName, m.inner, m.lean, term)
	}
	{
		term := "unsupported_HHmm_Equals"
		if fn := findFunc(hf, "Equals", "HHmm"); fn != nil && len(fn.Body.List) == 1 {
			h, v := recvName(fn), param0(fn)
			t := &cmpTr{file: hpath, env: map[string]string{h + ".hours": "p.h", h + ".minutes": "p.m", v + ".hours": "q.h", v + ".minutes": "q.m"}}
			term = t.block(fn.Body.List, "unsupported_falls_off_the_end")
		}
		fmt.Fprintf(&b, "/-- types/HHmm.go `HHmm.Equals` -/\ndef hhmmEquals (p q : HM) : Bool := %s\n\n", term)
	}

	// --- DateTime.Before: whole seconds (truncating division of the millisecond counts), then `<`
	{
		tpath := filepath.Join(repo, "types/datetime.go")
		term := "unsupported_DateTime_Before"
		if fn := findFunc(parseFile(tpath), "Before", "DateTime"); fn != nil && len(fn.Body.List) == 3 {
			d, tt := recvName(fn), param0(fn)
			if src(fn.Body.List[0]) == "p := time.Time("+d+").UnixMilli() / 1000" && src(fn.Body.List[1]) == "q := "+tt+".UnixMilli() / 1000" && src(fn.Body.List[2]) == "return p < q" {
				term = "decide (Int.tdiv dms 1000 < Int.tdiv tms 1000)"
			}
		}
		fmt.Fprintf(&b, "/-- types/datetime.go `DateTime.Before` (dms, tms: the two instants in Unix milliseconds) -/\ndef dateTimeBefore (dms tms : Int) : Bool := %s\n\n", term)
	}
	b.WriteString("end Uhppote.Gen.Order\n")
	writeIfChanged(filepath.Join(out, "Order.lean"), b.String())
}
