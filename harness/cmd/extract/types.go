package main

import (
	"fmt"
	"go/ast"
	"path/filepath"
	"regexp"
	"strings"
)

// types/*.go → Gen/Types.lean: numeric bounds in the HH:mm parsers (T3g), more to come.

func ifConds(fn *ast.FuncDecl) []string {
	out := []string{}
	if fn == nil {
		return out
	}
	ast.Inspect(fn.Body, func(n ast.Node) bool {
		if is, ok := n.(*ast.IfStmt); ok {
			out = append(out, src(is.Cond))
		}
		return true
	})
	return out
}

func genTypes(repo, out string) {
	var b strings.Builder
	b.WriteString("-- REGENERATED from types/*.go by harness/cmd/extract; do not edit\n")
	b.WriteString("namespace Uhppote.Gen.Types\n")

	f := parseFile(filepath.Join(repo, "types/HHmm.go"))
	minRe := regexp.MustCompile(`^minutes < 0 \|\| minutes > (\d+)$`)
	hrRe := regexp.MustCompile(`^hours < 0 \|\| hours > (\d+)$`)
	sites := []struct {
		suffix string
		fn     *ast.FuncDecl
	}{
		{"Text", findFunc(f, "HHmmFromString", "")},
		{"Wire", findFunc(f, "UnmarshalUT0311L0x", "HHmm")},
		{"JSON", findFunc(f, "UnmarshalJSON", "HHmm")},
	}
	for _, s := range sites {
		maxMin, maxHr, rule24 := "unsupported_HHmm_minutes_"+s.suffix, "unsupported_HHmm_hours_"+s.suffix, "false"
		for _, c := range ifConds(s.fn) {
			if m := minRe.FindStringSubmatch(c); m != nil {
				maxMin = m[1]
			}
			if m := hrRe.FindStringSubmatch(c); m != nil {
				maxHr = m[1]
			}
			if c == "hours == 24 && minutes != 0" {
				rule24 = "true"
			}
		}
		fmt.Fprintf(&b, "def hhmmMaxMinutes%s : Nat := %s\n", s.suffix, maxMin)
		fmt.Fprintf(&b, "def hhmmMaxHours%s : Nat := %s\n", s.suffix, maxHr)
		fmt.Fprintf(&b, "def hhmm24Rule%s : Bool := %s\n", s.suffix, rule24)
	}
	// string tables indexed by decoded values (C04): ControlState.String / MarshalJSON
	fd := parseFile(filepath.Join(repo, "types/door.go"))
	for _, name := range []string{"String", "MarshalJSON"} {
		fn := findFunc(fd, name, "ControlState")
		table := []string{}
		guard := ""
		indexed := "false"
		delegates := "false"
		if fn != nil {
			ast.Inspect(fn.Body, func(n ast.Node) bool {
				switch v := n.(type) {
				case *ast.CompositeLit:
					if _, ok := v.Type.(*ast.ArrayType); ok && len(table) == 0 {
						for _, e := range v.Elts {
							table = append(table, src(e))
						}
					}
				case *ast.IfStmt:
					if guard == "" {
						ret := false
						for _, st := range v.Body.List {
							if _, ok := st.(*ast.ReturnStmt); ok {
								ret = true
							}
						}
						if ret {
							guard = src(v.Cond)
						}
					}
				case *ast.IndexExpr:
					if src(v.Index) == "v" {
						indexed = "true"
					}
				case *ast.CallExpr:
					if src(v.Fun) == "v.String" {
						delegates = "true"
					}
				}
				return true
			})
		}
		fmt.Fprintf(&b, "def controlState%sTable : List String := [%s]\n", name, strings.Join(table, ", "))
		fmt.Fprintf(&b, "def controlState%sGuard : String := %s\n", name, leanStr(guard))
		fmt.Fprintf(&b, "def controlState%sIndexesByValue : Bool := %s\n", name, indexed)
		fmt.Fprintf(&b, "def controlState%sDelegatesToString : Bool := %s\n", name, delegates)
	}
	// date construction sites (C13): how each gets its instant
	fdate := parseFile(filepath.Join(repo, "types/date.go"))
	fsys := parseFile(filepath.Join(repo, "types/systemdate.go"))
	fdt := parseFile(filepath.Join(repo, "types/datetime.go"))
	site := func(fn *ast.FuncDecl) string {
		if fn == nil {
			return "missing"
		}
		usesHelper, localDirect := false, false
		ast.Inspect(fn.Body, func(n ast.Node) bool {
			if call, ok := n.(*ast.CallExpr); ok {
				switch src(call.Fun) {
				case "startOfDay":
					usesHelper = true
				case "time.ParseInLocation", "time.Date":
					if len(call.Args) > 0 && src(call.Args[len(call.Args)-1]) == "time.Local" {
						localDirect = true
					}
				}
			}
			return true
		})
		switch {
		case usesHelper && !localDirect:
			return "startOfDay"
		case localDirect && !usesHelper:
			return "local-midnight"
		default:
			return "mixed"
		}
	}
	dsites := []struct {
		name string
		fn   *ast.FuncDecl
	}{
		{"ToDate", findFunc(fdate, "ToDate", "")},
		{"ParseDate", findFunc(fdate, "ParseDate", "")},
		{"DateWire", findFunc(fdate, "UnmarshalUT0311L0x", "Date")},
		{"DateJSON", findFunc(fdate, "UnmarshalJSON", "Date")},
		{"SystemDateWire", findFunc(fsys, "UnmarshalUT0311L0x", "SystemDate")},
	}
	parts := []string{}
	for _, st := range dsites {
		parts = append(parts, fmt.Sprintf("(%s, %s)", leanStr(st.name), leanStr(site(st.fn))))
	}
	fmt.Fprintf(&b, "/-- how each date construction site obtains its instant -/\ndef dateSites : List (String × String) := [%s]\n", strings.Join(parts, ", "))
	helper := ""
	if fn := findFunc(fdate, "startOfDay", ""); fn != nil {
		helper = strings.Join(strings.Fields(src(fn.Body)), " ")
	}
	fmt.Fprintf(&b, "/-- body of the helper `startOfDay` (whitespace-normalised) -/\ndef startOfDayBody : String := %s\n", leanStr(helper))
	// DateTime wire decoder: which byte patterns are the zero value
	sentinels := []string{}
	if fn := findFunc(fdt, "UnmarshalUT0311L0x", "DateTime"); fn != nil {
		ast.Inspect(fn.Body, func(n ast.Node) bool {
			if call, ok := n.(*ast.CallExpr); ok && src(call.Fun) == "bytes.Equal" && len(call.Args) == 2 {
				sentinels = append(sentinels, leanStr(strings.Join(strings.Fields(src(call.Args[1])), "")))
			}
			return true
		})
	}
	fmt.Fprintf(&b, "/-- byte patterns `DateTime.UnmarshalUT0311L0x` maps to the zero value -/\ndef dateTimeZeroPatterns : List String := [%s]\n", strings.Join(sentinels, ", "))
	// the width guard of the three encoders whose digits come from formatting a value: `len(*encoded) != N` ⇒ error
	// (0 = no such guard: the encoder returns whatever the formatted digits fill)
	{
		lenRe := regexp.MustCompile(`^len\(\*encoded\) != (\d+)$`)
		guards := []string{}
		for _, t := range []struct{ file, recv string }{{"types/date.go", "Date"}, {"types/datetime.go", "DateTime"}, {"types/HHmm.go", "HHmm"}} {
			n := "0"
			fn := findFunc(parseFile(filepath.Join(repo, t.file)), "MarshalUT0311L0x", t.recv)
			if fn != nil {
				ast.Inspect(fn.Body, func(x ast.Node) bool {
					if is, ok := x.(*ast.IfStmt); ok {
						if m := lenRe.FindStringSubmatch(src(is.Cond)); m != nil && returnsError(is.Body) {
							n = m[1]
						}
					}
					return true
				})
			}
			guards = append(guards, fmt.Sprintf("(%s, %s)", leanStr(t.recv), n))
		}
		fmt.Fprintf(&b, "/-- `MarshalUT0311L0x` of these types refuses a value whose digits do not fill exactly this many bytes -/\ndef marshalWidthGuards : List (String × Nat) := [%s]\n", strings.Join(guards, ", "))
	}
	b.WriteString("end Uhppote.Gen.Types\n")
	writeIfChanged(filepath.Join(out, "Types.lean"), b.String())
}
