package main

import (
	"fmt"
	"go/ast"
	"go/token"
	"os"
	"path/filepath"
	"reflect"
	"regexp"
	"sort"
	"strconv"
	"strings"
)

// ---------------------------------------------------------------------------------------------
// encoding/UTO311-L0x/UT0311-L0x.go → Gen/Facts.lean (codecFacts) ; messages/*.go → Gen/Messages.lean
// ---------------------------------------------------------------------------------------------

type codecInfo struct {
	offsetRe, valueRe *regexp.Regexp
	offsetReSrc       string
	valueReSrc        string
}

// caseBody returns the statements of the `case <label>:` clause (label compared as printed source)
// of the first switch statement inside fn whose clauses contain that label.
func caseBodies(fn *ast.FuncDecl, label string) [][]ast.Stmt {
	out := [][]ast.Stmt{}
	ast.Inspect(fn.Body, func(n ast.Node) bool {
		cc, ok := n.(*ast.CaseClause)
		if !ok {
			return true
		}
		for _, e := range cc.List {
			if src(e) == label {
				out = append(out, cc.Body)
			}
		}
		return true
	})
	return out
}

func findCalls(stmts []ast.Stmt, suffix string) []*ast.CallExpr {
	out := []*ast.CallExpr{}
	for _, s := range stmts {
		ast.Inspect(s, func(n ast.Node) bool {
			if c, ok := n.(*ast.CallExpr); ok && strings.HasSuffix(src(c.Fun), suffix) {
				out = append(out, c)
			}
			return true
		})
	}
	return out
}

// sliceWidth: for `bytes[offset:offset+N]` (or `bytes[offset : offset+N]`) returns N.
func sliceWidth(e ast.Expr) (int64, bool) {
	se, ok := e.(*ast.SliceExpr)
	if !ok || src(se.X) != "bytes" || se.Low == nil || se.High == nil || src(se.Low) != "offset" {
		return 0, false
	}
	be, ok := se.High.(*ast.BinaryExpr)
	if !ok || be.Op != token.ADD || src(be.X) != "offset" {
		return 0, false
	}
	return intLit(be.Y)
}

func genCodec(repo, out string) *codecInfo {
	path := filepath.Join(repo, "encoding/UTO311-L0x/UT0311-L0x.go")
	f := parseFile(path)
	info := &codecInfo{}
	facts := map[string]string{}
	un := func(what string) string { return "unsupported_codec_" + what }

	// regex literals
	for _, d := range f.Decls {
		gd, ok := d.(*ast.GenDecl)
		if !ok || gd.Tok != token.VAR {
			continue
		}
		for _, sp := range gd.Specs {
			vs := sp.(*ast.ValueSpec)
			for i, n := range vs.Names {
				if i < len(vs.Values) {
					if c, ok := vs.Values[i].(*ast.CallExpr); ok && src(c.Fun) == "regexp.MustCompile" && len(c.Args) == 1 {
						if lit, ok := c.Args[0].(*ast.BasicLit); ok {
							s, _ := strconv.Unquote(lit.Value)
							switch n.Name {
							case "re":
								info.offsetReSrc = s
							case "vre":
								info.valueReSrc = s
							}
						}
					}
				}
			}
		}
	}
	var err error
	if info.offsetRe, err = regexp.Compile(info.offsetReSrc); err != nil || info.offsetReSrc == "" {
		fmt.Fprintln(os.Stderr, "extract: offset regex not found")
		info.offsetRe = regexp.MustCompile(`$^`)
	}
	if info.valueRe, err = regexp.Compile(info.valueReSrc); err != nil || info.valueReSrc == "" {
		info.valueRe = regexp.MustCompile(`$^`)
	}

	// --- Marshal prelude
	facts["bufLen"], facts["somDefault"] = un("bufLen"), un("somDefault")
	if fn := findFunc(f, "Marshal", ""); fn != nil {
		ast.Inspect(fn.Body, func(n ast.Node) bool {
			as, ok := n.(*ast.AssignStmt)
			if !ok || len(as.Lhs) != 1 || len(as.Rhs) != 1 {
				return true
			}
			if src(as.Lhs[0]) == "bytes" {
				if c, ok := as.Rhs[0].(*ast.CallExpr); ok && src(c.Fun) == "make" && len(c.Args) == 2 && src(c.Args[0]) == "[]byte" {
					if v, ok := intLit(c.Args[1]); ok {
						facts["bufLen"] = fmt.Sprint(v)
					}
				}
			}
			if src(as.Lhs[0]) == "bytes[0]" {
				if v, ok := intLit(as.Rhs[0]); ok {
					facts["somDefault"] = fmt.Sprint(v)
				}
			}
			return true
		})
	}

	// --- marshal arms
	m := findFunc(f, "marshal", "")
	u := findFunc(f, "unmarshal", "")
	parseBase := func(bodies [][]ast.Stmt) []string {
		bs := []string{}
		for _, b := range bodies {
			for _, c := range findCalls(b, "strconv.ParseUint") {
				if len(c.Args) == 3 {
					if v, ok := intLit(c.Args[1]); ok {
						bs = append(bs, fmt.Sprint(v))
					} else {
						bs = append(bs, "?")
					}
				}
			}
		}
		return bs
	}
	agree := func(xs []string, n int, what string) string {
		if len(xs) != n {
			return un(what)
		}
		for _, x := range xs {
			if x != xs[0] || x == "?" {
				return un(what + "_disagree")
			}
		}
		return xs[0]
	}
	if m == nil || u == nil {
		for _, k := range []string{"lenCheck", "som", "somAlt", "somAltCode", "u16WriteSlice", "u16ReadSlice", "u32WriteSlice", "u32ReadSlice", "littleEndian", "byteValueBase", "headerValueBase", "embeddedErrorReturned", "macReaderCopies", "ipReaderCopies", "boolTrue", "boolFalse"} {
			facts[k] = un(k)
		}
	} else {
		// value bases
		hb := append(parseBase(caseBodies(m, "tSOM")), parseBase(caseBodies(m, "tMsgType"))...)
		hb = append(hb, parseBase(caseBodies(u, "t.Type == tMsgType"))...)
		facts["headerValueBase"] = agree(hb, 3, "headerValueBase")
		bb := append(parseBase(caseBodies(m, "tByte")), parseBase(caseBodies(u, "tByte"))...)
		facts["byteValueBase"] = agree(bb, 2, "byteValueBase")

		// integers
		endian := []string{}
		w := func(fn *ast.FuncDecl, label, call string, argIx int) string {
			for _, b := range caseBodies(fn, label) {
				for _, c := range findCalls(b, call) {
					parts := strings.Split(src(c.Fun), ".")
					if len(parts) == 3 {
						endian = append(endian, parts[1])
					}
					if len(c.Args) > argIx {
						if v, ok := sliceWidth(c.Args[argIx]); ok {
							return fmt.Sprint(v)
						}
					}
				}
			}
			return un(label + "_" + call)
		}
		facts["u16WriteSlice"] = w(m, "tUint16", ".PutUint16", 0)
		facts["u32WriteSlice"] = w(m, "tUint32", ".PutUint32", 0)
		facts["u16ReadSlice"] = w(u, "tUint16", ".Uint16", 0)
		facts["u32ReadSlice"] = w(u, "tUint32", ".Uint32", 0)
		le := "true"
		if len(endian) != 4 {
			le = un("endian")
		}
		for _, e := range endian {
			if e != "LittleEndian" {
				le = "false"
			}
		}
		facts["littleEndian"] = le

		// booleans
		bt, bf := []string{}, []string{}
		for _, b := range caseBodies(m, "tBool") {
			for _, s := range b {
				if is, ok := s.(*ast.IfStmt); ok && src(is.Cond) == "f.Bool()" {
					lit := func(bs *ast.BlockStmt) string {
						if bs != nil && len(bs.List) == 1 {
							if as, ok := bs.List[0].(*ast.AssignStmt); ok && src(as.Lhs[0]) == "bytes[offset]" {
								if v, ok := intLit(as.Rhs[0]); ok {
									return fmt.Sprint(v)
								}
							}
						}
						return "?"
					}
					bt = append(bt, lit(is.Body))
					if eb, ok := is.Else.(*ast.BlockStmt); ok {
						bf = append(bf, lit(eb))
					}
				}
			}
		}
		for _, b := range caseBodies(u, "tBool") {
			// if bytes[offset] == 0x01 { f.SetBool(true) } else if bytes[offset] == 0x00 { f.SetBool(false) } else { return … }
			var walk func(s ast.Stmt)
			walk = func(s ast.Stmt) {
				is, ok := s.(*ast.IfStmt)
				if !ok {
					return
				}
				if be, ok := is.Cond.(*ast.BinaryExpr); ok && be.Op == token.EQL && src(be.X) == "bytes[offset]" && len(is.Body.List) == 1 {
					if v, ok := intLit(be.Y); ok {
						switch src(is.Body.List[0]) {
						case "f.SetBool(true)":
							bt = append(bt, fmt.Sprint(v))
						case "f.SetBool(false)":
							bf = append(bf, fmt.Sprint(v))
						}
					}
				}
				if is.Else != nil {
					walk(is.Else)
					if eb, ok := is.Else.(*ast.BlockStmt); ok {
						// the final else must be an error return
						ret := false
						for _, st := range eb.List {
							if _, ok := st.(*ast.ReturnStmt); ok {
								ret = true
							}
						}
						if !ret {
							bt = append(bt, "?")
						}
					}
				} else {
					bt = append(bt, "?") // no rejecting else-branch: lenient boolean
				}
			}
			for _, s := range b {
				walk(s)
			}
		}
		facts["boolTrue"] = agree(bt, 2, "boolTrue")
		facts["boolFalse"] = agree(bf, 2, "boolFalse")

		// header checks of unmarshal
		facts["lenCheck"], facts["som"], facts["somAlt"], facts["somAltCode"] = un("lenCheck"), un("som"), un("somAlt"), un("somAltCode")
		lenRe := regexp.MustCompile(`^len\(bytes\) != (\w+)$`)
		somRe := regexp.MustCompile(`^\(bytes\[0\] != (\w+)\) && \(bytes\[0\] != (\w+) \|\| bytes\[1\] != (\w+)\)$`)
		for _, s := range u.Body.List {
			if is, ok := s.(*ast.IfStmt); ok {
				c := src(is.Cond)
				if mm := lenRe.FindStringSubmatch(c); mm != nil {
					if v, err := strconv.ParseInt(mm[1], 0, 64); err == nil {
						facts["lenCheck"] = fmt.Sprint(v)
					}
				}
				if mm := somRe.FindStringSubmatch(c); mm != nil {
					for i, k := range []string{"som", "somAlt", "somAltCode"} {
						if v, err := strconv.ParseInt(mm[i+1], 0, 64); err == nil {
							facts[k] = fmt.Sprint(v)
						}
					}
				}
			}
		}

		// embedded struct recursion
		facts["embeddedErrorReturned"] = un("embedded")
		for _, b := range caseBodies(u, "t.Anonymous") {
			if len(b) == 1 {
				switch s := b[0].(type) {
				case *ast.ExprStmt:
					if strings.HasPrefix(src(s.X), "unmarshal(") {
						facts["embeddedErrorReturned"] = "false"
					}
				case *ast.IfStmt:
					if s.Init != nil && strings.Contains(src(s.Init), "unmarshal(bytes, f)") && strings.Contains(src(s.Body), "return err") {
						facts["embeddedErrorReturned"] = "true"
					}
				}
			}
		}

		// aliasing of the raw MAC / IPv4 readers
		alias := func(label string) string {
			for _, b := range caseBodies(u, label) {
				for _, c := range findCalls(b, "f.SetBytes") {
					if len(c.Args) == 1 {
						switch a := c.Args[0].(type) {
						case *ast.SliceExpr:
							if src(a.X) == "bytes" {
								return "false"
							}
						case *ast.Ident:
							if a.Name == "bytes" {
								return "false"
							}
							return "true" // a local copy (checked by the aliasing correspondence run)
						case *ast.CallExpr:
							return "true"
						}
					}
				}
			}
			return un(label + "_reader")
		}
		facts["macReaderCopies"] = alias("tMAC")
		facts["ipReaderCopies"] = alias("tIPv4")
	}

	var b strings.Builder
	b.WriteString("-- REGENERATED from encoding/UTO311-L0x/UT0311-L0x.go by harness/cmd/extract; do not edit\n")
	b.WriteString("import Uhppote.Model.Codec\nnamespace Uhppote.Gen\nopen Uhppote.Model\n\n")
	fmt.Fprintf(&b, "def offsetRegex : String := %s\n", leanStr(info.offsetReSrc))
	fmt.Fprintf(&b, "def valueRegex : String := %s\n\n", leanStr(info.valueReSrc))
	b.WriteString("def codecFacts : CodecFacts :=\n  { ")
	keys := []string{"bufLen", "somDefault", "lenCheck", "som", "somAlt", "somAltCode", "u16WriteSlice", "u16ReadSlice", "u32WriteSlice", "u32ReadSlice", "littleEndian", "byteValueBase", "headerValueBase", "embeddedErrorReturned", "macReaderCopies", "ipReaderCopies", "boolTrue", "boolFalse"}
	parts := []string{}
	for _, k := range keys {
		parts = append(parts, fmt.Sprintf("%s := %s", k, facts[k]))
	}
	b.WriteString(strings.Join(parts, ",\n    "))
	b.WriteString(" }\n\nend Uhppote.Gen\n")
	writeIfChanged(filepath.Join(out, "Facts.lean"), b.String())
	return info
}

// ---------------------------------------------------------------------------------------------
// messages
// ---------------------------------------------------------------------------------------------

var kindOf = map[string]string{
	"uint8": ".u8", "byte": ".u8", "uint16": ".u16", "uint32": ".u32", "bool": ".bool",
	"net.IP": ".ipv4", "netip.AddrPort": ".addrPort", "net.HardwareAddr": ".mac",
	"types.SerialNumber": ".serial", "types.Date": ".date", "*types.Date": ".datePtr",
	"types.DateTime": ".dateTime", "*types.DateTime": ".dateTimePtr",
	"types.SystemDate": ".sysDate", "types.SystemTime": ".sysTime",
	"types.HHmm": ".hhmm", "*types.HHmm": ".hhmmPtr", "types.PIN": ".pin",
	"types.Version": ".version", "types.MacAddress": ".macAddress",
}

type structInfo struct {
	name   string
	file   string
	fields []*ast.Field
	node   *ast.StructType
}

func leanOptStr(s *string) string {
	if s == nil {
		return "none"
	}
	return "(some " + leanStr(*s) + ")"
}

func genMessages(repo, out string, info *codecInfo) {
	dir := filepath.Join(repo, "messages")
	ents, _ := os.ReadDir(dir)
	structs := map[string]*structInfo{}
	names := []string{}
	var reqTable, respTable string
	for _, e := range ents {
		if !strings.HasSuffix(e.Name(), ".go") || strings.HasSuffix(e.Name(), "_test.go") {
			continue
		}
		path := filepath.Join(dir, e.Name())
		f := parseFile(path)
		for _, d := range f.Decls {
			gd, ok := d.(*ast.GenDecl)
			if !ok {
				continue
			}
			for _, sp := range gd.Specs {
				switch s := sp.(type) {
				case *ast.TypeSpec:
					if st, ok := s.Type.(*ast.StructType); ok {
						structs[s.Name.Name] = &structInfo{s.Name.Name, path, st.Fields.List, st}
						names = append(names, s.Name.Name)
					}
				case *ast.ValueSpec:
					for i, n := range s.Names {
						if i < len(s.Values) && (n.Name == "requests" || n.Name == "responses") {
							t := dispatchTable(path, s.Values[i])
							if n.Name == "requests" {
								reqTable = t
							} else {
								respTable = t
							}
						}
					}
				}
			}
		}
	}
	sort.Strings(names)
	dispatchFacts := ""
	for _, fname := range []string{"requests.go", "responses.go"} {
		f := parseFile(filepath.Join(dir, fname))
		fn := findFunc(f, map[string]string{"requests.go": "UnmarshalRequest", "responses.go": "UnmarshalResponse"}[fname], "")
		conds := []string{}
		if fn != nil {
			for _, st := range fn.Body.List {
				if is, ok := st.(*ast.IfStmt); ok {
					conds = append(conds, leanStr(src(is.Cond)))
				}
			}
		}
		dispatchFacts += fmt.Sprintf("def %sChecks : List String := [%s]\n", strings.TrimSuffix(fname, ".go"), strings.Join(conds, ", "))
	}

	leaf := func(si *structInfo, fld *ast.Field, name string) string {
		typ := src(fld.Type)
		tag := ""
		if fld.Tag != nil {
			t, _ := strconv.Unquote(fld.Tag.Value)
			tag = reflect.StructTag(t).Get("uhppote")
		}
		var value *string
		if mm := info.valueRe.FindStringSubmatch(tag); mm != nil && len(mm) > 1 {
			value = &mm[1]
		}
		if !ast.IsExported(name) {
			return unsupported(si.file, fld) // reflect cannot handle tagged unexported fields
		}
		switch typ {
		case "types.SOM":
			return fmt.Sprintf(".som %s", leanOptStr(value))
		case "types.MsgType":
			return fmt.Sprintf(".msgType %s", leanOptStr(value))
		}
		mm := info.offsetRe.FindStringSubmatch(tag)
		if mm == nil || len(mm) < 2 {
			return ".skip"
		}
		off, err := strconv.Atoi(mm[1])
		if err != nil {
			off = 0 // `offset, _ := strconv.Atoi(...)`
		}
		k, ok := kindOf[typ]
		if !ok {
			return unsupported(si.file, fld) // the real codec panics on this type
		}
		return fmt.Sprintf(".at %d %s %s", off, k, leanOptStr(value))
	}

	var b strings.Builder
	b.WriteString("-- REGENERATED from messages/*.go by harness/cmd/extract; do not edit\n")
	b.WriteString("import Uhppote.Model.Codec\nnamespace Uhppote.Gen.Messages\nopen Uhppote.Model\n\n")
	for _, n := range names {
		si := structs[n]
		items := []string{}
		for _, fld := range si.fields {
			if len(fld.Names) == 0 { // embedded
				tn := strings.TrimPrefix(src(fld.Type), "*")
				inner, ok := structs[tn]
				if !ok || strings.HasPrefix(src(fld.Type), "*") {
					items = append(items, unsupported(si.file, fld))
					continue
				}
				ls := []string{}
				for _, ifld := range inner.fields {
					if len(ifld.Names) == 0 {
						ls = append(ls, unsupported(inner.file, ifld)) // deeper nesting is not modelled
						continue
					}
					for _, nm := range ifld.Names {
						ls = append(ls, fmt.Sprintf("(%s, %s)", leanStr(nm.Name), leaf(inner, ifld, nm.Name)))
					}
				}
				items = append(items, fmt.Sprintf(".embed %s [\n      %s]", leanStr(tn), strings.Join(ls, ",\n      ")))
				continue
			}
			for _, nm := range fld.Names {
				items = append(items, fmt.Sprintf(".leaf %s (%s)", leanStr(nm.Name), leaf(si, fld, nm.Name)))
			}
		}
		fmt.Fprintf(&b, "def %s : Layout := [\n  %s]\n\n", n, strings.Join(items, ",\n  "))
	}
	b.WriteString("def all : List (String × Layout) := [\n")
	xs := []string{}
	for _, n := range names {
		xs = append(xs, fmt.Sprintf("  (%s, %s)", leanStr(n), n))
	}
	b.WriteString(strings.Join(xs, ",\n"))
	b.WriteString("]\n\n")
	if reqTable == "" {
		reqTable = "unsupported_requests_table"
	}
	if respTable == "" {
		respTable = "unsupported_responses_table"
	}
	fmt.Fprintf(&b, "/-- messages/requests.go: function code ↦ request type -/\ndef requests : List (Nat × String) := %s\n\n", reqTable)
	fmt.Fprintf(&b, "/-- messages/responses.go: function code ↦ response type -/\ndef responses : List (Nat × String) := %s\n\n", respTable)
	b.WriteString("/-- conditions of the if statements of UnmarshalRequest / UnmarshalResponse, in order -/\n" + dispatchFacts + "\n")
	b.WriteString("end Uhppote.Gen.Messages\n")
	writeIfChanged(filepath.Join(out, "Messages.lean"), b.String())
}

// dispatchTable: map[byte]func() X{ 0x20: func() X { return new(T) }, … }
func dispatchTable(path string, e ast.Expr) string {
	cl, ok := e.(*ast.CompositeLit)
	if !ok {
		return unsupported(path, e)
	}
	type ent struct {
		code int64
		name string
	}
	ents := []ent{}
	for _, el := range cl.Elts {
		kv, ok := el.(*ast.KeyValueExpr)
		if !ok {
			return unsupported(path, el)
		}
		code, ok := intLit(kv.Key)
		fl, ok2 := kv.Value.(*ast.FuncLit)
		if !ok || !ok2 || len(fl.Body.List) != 1 {
			return unsupported(path, el)
		}
		ret, ok := fl.Body.List[0].(*ast.ReturnStmt)
		if !ok || len(ret.Results) != 1 {
			return unsupported(path, el)
		}
		name := ""
		switch r := ret.Results[0].(type) {
		case *ast.CallExpr: // new(T)
			if src(r.Fun) == "new" && len(r.Args) == 1 {
				name = src(r.Args[0])
			}
		case *ast.UnaryExpr: // &T{}
			if r.Op == token.AND {
				if c, ok := r.X.(*ast.CompositeLit); ok && len(c.Elts) == 0 {
					name = src(c.Type)
				}
			}
		}
		if name == "" {
			return unsupported(path, el)
		}
		ents = append(ents, ent{code, name})
	}
	sort.Slice(ents, func(i, j int) bool { return ents[i].code < ents[j].code })
	xs := []string{}
	for _, e := range ents {
		xs = append(xs, fmt.Sprintf("(0x%02x, %s)", e.code, leanStr(e.name)))
	}
	return "[" + strings.Join(xs, ", ") + "]"
}
