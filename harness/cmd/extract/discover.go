package main

import (
	"fmt"
	"go/ast"
	"path/filepath"
	"strconv"
	"strings"
)

// uhppote/get_device.go GetDevices → Gen/Discover.lean (C11): how one entry of the result is put together from one
// decoded reply - the port the address is completed with (the configured broadcast port, a default otherwise), the
// name looked up by serial number, the address from the reply's IP field, and which reply field goes into which field
// of the entry. Statement shapes other than the ones below give `unknownOf`.
func genDiscover(repo, out string) {
	path := filepath.Join(repo, "uhppote/get_device.go")
	port, entry := "unsupported_GetDevices_port", "unsupported_GetDevices_entry"
	index := map[string]int{}
	for i, fld := range messageStructs(repo)["GetDeviceResponse"] {
		name, _, _ := strings.Cut(fld, ":")
		index[name] = i
	}
	if fn := findFunc(parseFile(path), "GetDevices", "uhppote"); fn != nil && fn.Body != nil {
		port, entry = discoverTerms(path, fn, index)
	}
	var b strings.Builder
	b.WriteString("-- REGENERATED from uhppote/get_device.go by harness/cmd/extract; do not edit\n")
	b.WriteString("import Uhppote.Model.Events\n/-! How GetDevices turns one decoded get-device reply into one entry of its result (r: the values of the reply in\n    declaration order), translated statement by statement. -/\nnamespace Uhppote.Gen.Discover\nopen Uhppote Uhppote.Model Uhppote.Model.Api Uhppote.Model.Events\n\n")
	fmt.Fprintf(&b, "/-- the port every reported address is completed with -/\ndef port (cfg : Cfg) : Nat := %s\n\n", port)
	fmt.Fprintf(&b, "/-- one entry: the reply's fields, the configured name of that controller, its address -/\ndef entry (cfg : Cfg) (r : List Val) : Entry := %s\n\n", entry)
	b.WriteString("end Uhppote.Gen.Discover\n")
	writeIfChanged(filepath.Join(out, "Discover.lean"), b.String())
}

func discoverTerms(file string, fn *ast.FuncDecl, index map[string]int) (string, string) {
	norm := func(n ast.Node) string { return normalise(src(n)) }
	body := fn.Body.List
	// request := messages.GetDeviceRequest{} ; replies, err := u.broadcast(request, messages.GetDeviceResponse{}) ; if err != nil { return nil, err }
	// port := uint16(N) ; if u.broadcastAddr.IsValid() { port = u.broadcastAddr.Port() } ; controllers := []types.Device{} ; for … ; return controllers, nil
	if len(body) != 8 {
		return unsupported(file, fn.Body), unsupported(file, fn.Body)
	}
	if norm(body[0]) != "request := messages.GetDeviceRequest{}" ||
		norm(body[1]) != "replies, err := u.broadcast(request, messages.GetDeviceResponse{})" ||
		norm(body[2]) != "if err != nil { return nil, err }" ||
		norm(body[5]) != "controllers := []types.Device{}" ||
		norm(body[7]) != "return controllers, nil" {
		return unsupported(file, fn.Body), unsupported(file, fn.Body)
	}
	portTerm := unsupported(file, body[3])
	if p := norm(body[3]); strings.HasPrefix(p, "port := uint16(") && strings.HasSuffix(p, ")") {
		if n, err := strconv.Atoi(strings.TrimSuffix(strings.TrimPrefix(p, "port := uint16("), ")")); err == nil &&
			norm(body[4]) == "if u.broadcastAddr.IsValid() { port = u.broadcastAddr.Port() }" {
			portTerm = fmt.Sprintf("if cfg.broadcastValid then cfg.broadcastPort else %d", n)
		}
	}
	loop, ok := body[6].(*ast.RangeStmt)
	if !ok || norm(loop.X) != "replies" || loop.Value == nil || (loop.Key != nil && src(loop.Key) != "_") {
		return portTerm, unsupported(file, body[6])
	}
	v := src(loop.Value)
	st := loop.Body.List
	if len(st) != 6 {
		return portTerm, unsupported(file, loop.Body)
	}
	as, ok := st[0].(*ast.AssignStmt)
	if !ok || len(as.Lhs) != 1 || norm(as.Rhs[0]) != v+".(messages.GetDeviceResponse)" {
		return portTerm, unsupported(file, st[0])
	}
	R := src(as.Lhs[0])
	// the name and the address, each an initialisation followed by its conditional assignment, in either order
	want := map[string]string{
		`name := ""`:               "if device, ok := u.devices[uint32(" + R + ".SerialNumber)]; ok { name = device.Name }",
		`addr := netip.AddrPort{}`: "if v, ok := netip.AddrFromSlice(" + R + ".IpAddress.To4()); ok { addr = netip.AddrPortFrom(v, port) }",
	}
	seen := 0
	for _, i := range []int{1, 3} {
		if next, ok := want[norm(st[i])]; ok && norm(st[i+1]) == next {
			seen++
			delete(want, norm(st[i]))
		}
	}
	if seen != 2 {
		return portTerm, unsupported(file, loop.Body)
	}
	ap, ok := st[5].(*ast.AssignStmt)
	if !ok || len(ap.Lhs) != 1 || src(ap.Lhs[0]) != "controllers" || len(ap.Rhs) != 1 {
		return portTerm, unsupported(file, st[5])
	}
	call, ok := ap.Rhs[0].(*ast.CallExpr)
	if !ok || src(call.Fun) != "append" || len(call.Args) != 2 || src(call.Args[0]) != "controllers" {
		return portTerm, unsupported(file, st[5])
	}
	lit, ok := call.Args[1].(*ast.CompositeLit)
	if !ok || src(lit.Type) != "types.Device" {
		return portTerm, unsupported(file, st[5])
	}
	vals := map[string]string{}
	for _, el := range lit.Elts {
		kv, ok := el.(*ast.KeyValueExpr)
		if !ok {
			return portTerm, unsupported(file, el)
		}
		vals[src(kv.Key)] = norm(kv.Value)
	}
	if vals["Name"] != "name" || vals["Address"] != "addr" || vals["TimeZone"] != "time.Local" || len(vals) != 10 {
		return portTerm, unsupported(file, lit)
	}
	fields := []string{}
	for _, f := range []string{"SerialNumber", "IpAddress", "SubnetMask", "Gateway", "MacAddress", "Version", "Date"} {
		val, ok := vals[f]
		if !ok || !strings.HasPrefix(val, R+".") {
			return portTerm, unsupported(file, lit)
		}
		i, ok := index[strings.TrimPrefix(val, R+".")]
		if !ok {
			return portTerm, unsupported(file, lit)
		}
		fields = append(fields, fmt.Sprintf("r.getD %d .none_", i))
	}
	return portTerm, fmt.Sprintf("⟨[%s], nameOf cfg (r.getD %d .none_), addrOf (r.getD %d .none_) (port cfg)⟩",
		strings.Join(fields, ", "), index["SerialNumber"], index["IpAddress"])
}
