package main

import (
	"fmt"
	"go/ast"
	"go/token"
	"path/filepath"
	"strings"
)

// types/{bind,broadcast,listen,controller}_addr.go → Gen/Addr.lean (T3g): regex literals, port rules,
// default ports, the port String() omits.

func genAddr(repo, out string) {
	var b strings.Builder
	b.WriteString("-- REGENERATED from types/*_addr.go by harness/cmd/extract; do not edit\n")
	b.WriteString("import Uhppote.Model.Addr\nnamespace Uhppote.Gen.Addr\nopen Uhppote.Model.Addr\n\n")
	consts := map[string]int64{}
	files := map[string]*ast.File{}
	for _, role := range []string{"bind", "broadcast", "listen", "controller"} {
		f := parseFile(filepath.Join(repo, "types", role+"_addr.go"))
		files[role] = f
		for _, d := range f.Decls {
			if gd, ok := d.(*ast.GenDecl); ok && gd.Tok == token.CONST {
				for _, sp := range gd.Specs {
					vs := sp.(*ast.ValueSpec)
					for i, n := range vs.Names {
						if i < len(vs.Values) {
							if v, ok := intLit(vs.Values[i]); ok {
								consts[n.Name] = v
							}
						}
					}
				}
			}
		}
	}
	val := func(e ast.Expr) (int64, bool) {
		if v, ok := intLit(e); ok {
			return v, true
		}
		if id, ok := e.(*ast.Ident); ok {
			v, ok := consts[id.Name]
			return v, ok
		}
		return 0, false
	}
	// ports: `x.Port() == C` possibly joined by ||
	var ports func(e ast.Expr) ([]int64, bool)
	ports = func(e ast.Expr) ([]int64, bool) {
		switch v := e.(type) {
		case *ast.ParenExpr:
			return ports(v.X)
		case *ast.BinaryExpr:
			if v.Op == token.LOR {
				l, ok1 := ports(v.X)
				r, ok2 := ports(v.Y)
				return append(l, r...), ok1 && ok2
			}
			if v.Op == token.EQL && strings.HasSuffix(src(v.X), ".Port()") {
				if c, ok := val(v.Y); ok {
					return []int64{c}, true
				}
			}
		}
		return nil, false
	}
	title := map[string]string{"bind": "Bind", "broadcast": "Broadcast", "listen": "Listen", "controller": "Controller"}
	for _, role := range []string{"bind", "broadcast", "listen", "controller"} {
		f := files[role]
		T := title[role]
		fn := findFunc(f, "Parse"+T+"Addr", "")
		regexes := []string{}
		rejected := "unsupported_" + role + "_port_rule"
		def := "0"
		hasSecond := "false"
		if fn != nil {
			branch := 0
			for _, st := range fn.Body.List {
				is, ok := st.(*ast.IfStmt)
				if !ok {
					continue
				}
				// if matched, err := regexp.MatchString(`…`, s); err != nil {…} else if matched { … }
				if as, ok := is.Init.(*ast.AssignStmt); ok && len(as.Rhs) == 1 {
					if call, ok := as.Rhs[0].(*ast.CallExpr); ok && src(call.Fun) == "regexp.MatchString" {
						if lit, ok := call.Args[0].(*ast.BasicLit); ok {
							regexes = append(regexes, leanStr(strings.Trim(lit.Value, "`\"")))
						}
					}
				}
				branch++
				matched, ok := is.Else.(*ast.IfStmt)
				if !ok {
					continue
				}
				if branch == 1 {
					// inside: if addr, err := netip.ParseAddrPort(s); err != nil {…} else if <ports> {…} else {…}
					rs := []int64{}
					okAll := true
					ast.Inspect(matched.Body, func(n ast.Node) bool {
						if inner, ok := n.(*ast.IfStmt); ok && strings.Contains(src(inner.Cond), ".Port()") {
							p, ok := ports(inner.Cond)
							if !ok {
								okAll = false
							}
							rs = append(rs, p...)
						}
						return true
					})
					if okAll {
						xs := []string{}
						for _, p := range rs {
							xs = append(xs, fmt.Sprint(p))
						}
						rejected = "[" + strings.Join(xs, ", ") + "]"
					}
				} else {
					hasSecond = "true"
					ast.Inspect(matched.Body, func(n ast.Node) bool {
						if call, ok := n.(*ast.CallExpr); ok && src(call.Fun) == T+"AddrFrom" && len(call.Args) == 2 {
							if v, ok := val(call.Args[1]); ok {
								def = fmt.Sprint(v)
							} else {
								def = unsupported(role+"_addr.go", call)
							}
						}
						return true
					})
				}
			}
		}
		omit := "none"
		if sf := findFunc(f, "String", T+"Addr"); sf != nil {
			ast.Inspect(sf.Body, func(n ast.Node) bool {
				if is, ok := n.(*ast.IfStmt); ok {
					if be, ok := is.Cond.(*ast.BinaryExpr); ok && be.Op == token.EQL && strings.HasSuffix(src(be.X), ".Port()") {
						if v, ok := val(be.Y); ok {
							omit = fmt.Sprintf("(some %d)", v)
						}
					}
				}
				return true
			})
		}
		fmt.Fprintf(&b, "def %sRegexes : List String := [%s]\n", role, strings.Join(regexes, ", "))
		fmt.Fprintf(&b, "def %s : Role := { hasAddrOnlyBranch := %s, rejectedPorts := %s, defaultPort := %s }\n", role, hasSecond, rejected, def)
		fmt.Fprintf(&b, "def %sOmitPort : Option Nat := %s\n\n", role, omit)
	}
	b.WriteString("end Uhppote.Gen.Addr\n")
	writeIfChanged(filepath.Join(out, "Addr.lean"), b.String())
}
