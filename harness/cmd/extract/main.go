// extract: the translator. Parses the current sources of /repo with go/parser + go/ast and
// regenerates lean/Uhppote/Gen/*.lean. Anything it does not understand is emitted as the
// placeholder `Uhppote.unknownOf "<file>_<line>"` (typed, opaque to the kernel) so that the facts that depend on it fail loudly
// instead of guessing. Files are rewritten only when their content changes.
package main

import (
	"bytes"
	"flag"
	"fmt"
	"go/ast"
	"go/parser"
	"go/printer"
	"go/token"
	"os"
	"path/filepath"
	"regexp"
	"strconv"
	"strings"
)

var fset = token.NewFileSet()

func parseFile(path string) *ast.File {
	f, err := parser.ParseFile(fset, path, nil, parser.ParseComments)
	if err != nil {
		fmt.Fprintf(os.Stderr, "extract: cannot parse %s: %v\n", path, err)
		os.Exit(2)
	}
	return f
}

func src(n ast.Node) string {
	var b bytes.Buffer
	printer.Fprint(&b, fset, n)
	return b.String()
}

func unsupported(file string, n ast.Node) string {
	base := strings.NewReplacer(".", "_", "-", "_", "/", "_").Replace(filepath.Base(file))
	return fmt.Sprintf("unsupported_%s_%d", base, fset.Position(n.Pos()).Line)
}

func leanStr(s string) string {
	return strconv.Quote(s)
}

var unsupportedRe = regexp.MustCompile(`\bunsupported_(\w+)`)

func writeIfChanged(path, content string) {
	// a construct the translator did not understand was emitted as the identifier unsupported_<what>: turn it into
	// a typed, kernel-opaque placeholder so that the file still compiles and only what depends on that fact breaks
	if strings.HasSuffix(path, ".lean") && unsupportedRe.MatchString(content) {
		content = unsupportedRe.ReplaceAllString(content, `(Uhppote.unknownOf "$1")`)
		lines := strings.SplitN(content, "\n", 2)
		content = lines[0] + "\nimport Uhppote.Basic.Unknown\n" + lines[1]
	}
	if old, err := os.ReadFile(path); err == nil && string(old) == content {
		return
	}
	if err := os.MkdirAll(filepath.Dir(path), 0o755); err != nil {
		panic(err)
	}
	if err := os.WriteFile(path, []byte(content), 0o644); err != nil {
		panic(err)
	}
}

func findFunc(f *ast.File, name string, recv string) *ast.FuncDecl {
	for _, d := range f.Decls {
		if fd, ok := d.(*ast.FuncDecl); ok && fd.Name.Name == name {
			if recv == "" && fd.Recv == nil {
				return fd
			}
			if recv != "" && fd.Recv != nil && len(fd.Recv.List) == 1 {
				t := src(fd.Recv.List[0].Type)
				if strings.TrimPrefix(t, "*") == recv {
					return fd
				}
			}
		}
	}
	return nil
}

// intLit evaluates an integer or rune literal.
func intLit(e ast.Expr) (int64, bool) {
	switch v := e.(type) {
	case *ast.BasicLit:
		switch v.Kind {
		case token.INT:
			n, err := strconv.ParseInt(v.Value, 0, 64)
			if err != nil {
				u, err2 := strconv.ParseUint(v.Value, 0, 64)
				return int64(u), err2 == nil
			}
			return n, true
		case token.CHAR:
			r, _, _, err := strconv.UnquoteChar(v.Value[1:len(v.Value)-1], '\'')
			return int64(r), err == nil
		}
	case *ast.ParenExpr:
		return intLit(v.X)
	case *ast.CallExpr: // byte(0x00)
		if len(v.Args) == 1 {
			if id, ok := v.Fun.(*ast.Ident); ok && (id.Name == "byte" || id.Name == "uint8" || id.Name == "rune") {
				return intLit(v.Args[0])
			}
		}
	}
	return 0, false
}

func main() {
	repo := flag.String("repo", "/repo", "repository root")
	out := flag.String("out", "/verif/lean/Uhppote/Gen", "output directory")
	flag.Parse()

	genBCD(*repo, *out)
	info := genCodec(*repo, *out)
	genMessages(*repo, *out, info)
	genTypes(*repo, *out)
	genRouting(*repo, *out)
	genAddr(*repo, *out)
	genAlias(*repo, *out)
	genDriver(*repo, *out)
	genOps(*repo, *out)
	genOrder(*repo, *out)
	genStatus(*repo, *out)
	genDiscover(*repo, *out)
	genSource(*repo, *out)
}

// ---------------------------------------------------------------------------------------------
// encoding/bcd/bcd.go  →  Gen/BCD.lean
// ---------------------------------------------------------------------------------------------

func genBCD(repo, out string) {
	path := filepath.Join(repo, "encoding/bcd/bcd.go")
	f := parseFile(path)
	var b strings.Builder
	b.WriteString("-- REGENERATED from encoding/bcd/bcd.go by harness/cmd/extract; do not edit\n")
	b.WriteString("namespace Uhppote.Gen.BCD\n")

	pairs := func(ps [][2]int64) string {
		xs := []string{}
		for _, p := range ps {
			xs = append(xs, fmt.Sprintf("(%d, %d)", p[0], p[1]))
		}
		return "[" + strings.Join(xs, ", ") + "]"
	}

	// --- Encode
	enc := findFunc(f, "Encode", "")
	encTable := ""
	encDefault := ""
	encInit := ""
	encSize := ""
	if enc == nil {
		encTable = "unsupported_bcd_go_Encode"
		encDefault, encInit, encSize = encTable, encTable, encTable
	} else {
		ast.Inspect(enc.Body, func(n ast.Node) bool {
			switch s := n.(type) {
			case *ast.AssignStmt:
				if len(s.Lhs) == 1 && len(s.Rhs) == 1 && s.Tok == token.DEFINE {
					if id, ok := s.Lhs[0].(*ast.Ident); ok {
						if id.Name == "ix" {
							encInit = leanStr(src(s.Rhs[0]))
						}
						if id.Name == "N" {
							encSize = leanStr(src(s.Rhs[0]))
						}
					}
				}
			case *ast.SwitchStmt:
				if id, ok := s.Tag.(*ast.Ident); ok && id.Name == "ch" {
					ps := [][2]int64{}
					bad := ""
					for _, c := range s.Body.List {
						cc := c.(*ast.CaseClause)
						if cc.List == nil { // default
							encDefault = "false"
							for _, st := range cc.Body {
								if r, ok := st.(*ast.ReturnStmt); ok && len(r.Results) == 2 {
									if id, ok := r.Results[1].(*ast.Ident); !ok || id.Name != "nil" {
										encDefault = "true"
									}
								}
							}
							continue
						}
						// body: b = <lit>
						var val int64 = -1
						if len(cc.Body) == 1 {
							if as, ok := cc.Body[0].(*ast.AssignStmt); ok && len(as.Lhs) == 1 && len(as.Rhs) == 1 && as.Tok == token.ASSIGN {
								if id, ok := as.Lhs[0].(*ast.Ident); ok && id.Name == "b" {
									if v, ok := intLit(as.Rhs[0]); ok {
										val = v
									}
								}
							}
						}
						if val < 0 {
							bad = unsupported(path, cc)
							continue
						}
						for _, e := range cc.List {
							if k, ok := intLit(e); ok {
								ps = append(ps, [2]int64{k, val})
							} else {
								bad = unsupported(path, e)
							}
						}
					}
					if bad != "" {
						encTable = bad
					} else {
						encTable = pairs(ps)
					}
				}
			}
			return true
		})
	}
	if encTable == "" {
		encTable = "unsupported_bcd_go_Encode_switch"
	}
	if encDefault == "" {
		encDefault = "false"
	}
	if encInit == "" {
		encInit = leanStr("?")
	}
	if encSize == "" {
		encSize = leanStr("?")
	}
	fmt.Fprintf(&b, "def encTable : List (Nat × Nat) := %s\n", encTable)
	fmt.Fprintf(&b, "def encDefaultIsError : Bool := %s\n", encDefault)
	fmt.Fprintf(&b, "def encInitIx : String := %s\n", encInit)
	fmt.Fprintf(&b, "def encSize : String := %s\n", encSize)

	// --- Decode
	dec := findFunc(f, "Decode", "")
	type sw struct {
		mask  int64
		table string
	}
	sws := []sw{}
	decDefault := "true"
	if dec != nil {
		ast.Inspect(dec.Body, func(n ast.Node) bool {
			s, ok := n.(*ast.SwitchStmt)
			if !ok {
				return true
			}
			be, ok := s.Tag.(*ast.BinaryExpr)
			if !ok || be.Op != token.AND {
				sws = append(sws, sw{0, unsupported(path, s)})
				return true
			}
			mask, ok := intLit(be.Y)
			if id, isId := be.X.(*ast.Ident); !ok || !isId || id.Name != "b" {
				sws = append(sws, sw{0, unsupported(path, s)})
				return true
			}
			ps := [][2]int64{}
			bad := ""
			for _, c := range s.Body.List {
				cc := c.(*ast.CaseClause)
				if cc.List == nil {
					isErr := false
					for _, st := range cc.Body {
						if r, ok := st.(*ast.ReturnStmt); ok && len(r.Results) == 2 {
							if id, ok := r.Results[1].(*ast.Ident); !ok || id.Name != "nil" {
								isErr = true
							}
						}
					}
					if !isErr {
						decDefault = "false"
					}
					continue
				}
				var val int64 = -1
				if len(cc.Body) == 1 {
					if es, ok := cc.Body[0].(*ast.ExprStmt); ok {
						if call, ok := es.X.(*ast.CallExpr); ok && len(call.Args) == 1 && strings.HasSuffix(src(call.Fun), ".WriteRune") {
							if v, ok := intLit(call.Args[0]); ok {
								val = v
							}
						}
					}
				}
				if val < 0 {
					bad = unsupported(path, cc)
					continue
				}
				for _, e := range cc.List {
					if k, ok := intLit(e); ok {
						ps = append(ps, [2]int64{k, val})
					} else {
						bad = unsupported(path, e)
					}
				}
			}
			has := false
			for _, c := range s.Body.List {
				if c.(*ast.CaseClause).List == nil {
					has = true
				}
			}
			if !has {
				decDefault = "false"
			}
			if bad != "" {
				sws = append(sws, sw{mask, bad})
			} else {
				sws = append(sws, sw{mask, pairs(ps)})
			}
			return true
		})
	}
	if len(sws) != 2 {
		sws = []sw{{0, "unsupported_bcd_go_Decode"}, {0, "unsupported_bcd_go_Decode"}}
	}
	// the high-nibble switch is the one whose mask has bits above 0x0f
	hi, lo := sws[0], sws[1]
	if hi.mask < lo.mask {
		hi, lo = lo, hi
	}
	fmt.Fprintf(&b, "def decHiMask : Nat := %d\n", hi.mask)
	fmt.Fprintf(&b, "def decLoMask : Nat := %d\n", lo.mask)
	fmt.Fprintf(&b, "def decHiTable : List (Nat × Nat) := %s\n", hi.table)
	fmt.Fprintf(&b, "def decLoTable : List (Nat × Nat) := %s\n", lo.table)
	fmt.Fprintf(&b, "def decDefaultIsError : Bool := %s\n", decDefault)
	b.WriteString("end Uhppote.Gen.BCD\n")
	writeIfChanged(filepath.Join(out, "BCD.lean"), b.String())
}
