package main

import (
	"fmt"
	"net"
	"net/netip"
	"os"
	"strings"
	"sync"
	"syscall"
	"time"

	"github.com/uhppoted/uhppote-core/types"
	"github.com/uhppoted/uhppote-core/uhppote"

	"verif/harness/internal/cases"
	"verif/harness/internal/rng"
)

func init() {
	streams["drv"] = streamDrv
	streams["lock"] = streamLock
	streams["leak"] = streamLeak
}

type arrival struct {
	ms    int
	class string
}

var dgClasses = []string{"valid", "short", "long", "wrong-serial", "serial-0", "wrong-code", "wrong-som", "malformed"}

// one call of GetCardByID through the real driver against a scripted responder
func drvCase(c *ctx, r *rng.R, path string, bind int, arr []arrival, special string, debug bool, timeouts ...time.Duration) (string, string) {
	timeout := T
	if len(timeouts) > 0 {
		timeout = timeouts[0]
	}
	serial := uint32(405419896)
	card := uint32(8165538)
	steps := func(req []byte) []step {
		out := []step{}
		for _, a := range arr {
			out = append(out, step{time.Duration(a.ms) * time.Millisecond, datagram(r, a.class, serial, card), false})
		}
		return out
	}
	var endpoint string
	var closeFn func()
	received := func() int { return 0 }
	switch path {
	case "tcp":
		if special == "refused" {
			p := freePort()
			endpoint = fmt.Sprintf("127.0.0.1:%d", p)
			closeFn = func() {}
		} else {
			rs := newTCPResponder("127.0.0.1", steps)
			rs.stall = special == "stall"
			rs.reset = special == "reset"
			rs.resetAfterRequest = special == "reset-after-request"
			endpoint, closeFn, received = rs.addr(), rs.close, rs.received
		}
	case "any":
		// protocol "any": UDP; a TCP endpoint on the same port number must hear nothing
		for try := 0; ; try++ {
			rs := newUDPResponder("127.0.0.1", steps)
			ts, err := newTCPResponderAt("127.0.0.1", int(netip.MustParseAddrPort(rs.addr()).Port()), echo(func() time.Duration { return 3 * time.Millisecond }))
			if err != nil && try < 8 {
				rs.close()
				continue
			}
			if ts != nil {
				ts.stall = special == "stall" // the TCP endpoint accepts and never answers
			}
			endpoint = rs.addr()
			closeFn = func() {
				rs.close()
				if ts != nil {
					ts.close()
				}
			}
			received = func() int {
				if ts != nil {
					return rs.received() + 100*ts.received()
				}
				return rs.received()
			}
			break
		}
	default:
		if special == "refused" {
			endpoint = fmt.Sprintf("127.0.0.1:%d", freePort())
			closeFn = func() {}
		} else {
			rs := newUDPResponder("127.0.0.1", steps)
			endpoint, closeFn, received = rs.addr(), rs.close, rs.received
		}
	}
	defer closeFn()
	u := newRealClient(clientCfg{path, bind, "", debug, timeout}, serial, endpoint)
	t0 := time.Now()
	res, err := getCard(u, serial, card)
	el := time.Since(t0)
	out := "err"
	if err == errHung {
		out = "hung"
	} else if err == errPanic {
		out = "panic"
	} else if err == nil && res != nil && res.CardNumber == card {
		out = "ok"
	} else if err == nil {
		out = "wrong-result"
	}
	ats := []string{}
	for _, a := range arr {
		ats = append(ats, fmt.Sprintf("%d:%s", a.ms, a.class))
	}
	dbg := ""
	if debug {
		dbg = " debug=on"
	}
	line := fmt.Sprintf("drv %s bind=%s special=%s T=%d%s | %s", path, map[bool]string{true: "0", false: "fixed"}[bind == 0], special, timeout.Milliseconds(), dbg, strings.Join(ats, " "))
	n := received()
	if special == "refused" || special == "reset" {
		n = 1
	}
	if timeout == 0 {
		// a client configured with no time at all: whether the request still gets out before the deadline is not specified
		return line, fmt.Sprintf("%s %s requests=-", out, timeClassOf(el, timeout))
	}
	return line, fmt.Sprintf("%s %s requests=%d", out, timeClass(el), n)
}

func genArrivalSeq(r *rng.R) []arrival {
	n := rng.Pick(r, 0, 1, 1, 2, 2, 3, 4)
	arr := []arrival{}
	t := 0
	late := false
	for i := 0; i < n; i++ {
		// well away from the deadline: early (≤ 0.45 T) or late (≥ 1.8 T)
		if !late && (r.Chance(1, 5) || t > int(T.Milliseconds())*4/10) {
			late = true
			t = int(T.Milliseconds()) * 18 / 10
		}
		t += 5 + r.Intn(20)
		cl := dgClasses[r.Intn(len(dgClasses))]
		if r.Chance(1, 2) {
			cl = "valid"
		}
		arr = append(arr, arrival{t, cl})
	}
	return arr
}

func streamDrv(c *ctx) {
	r := c.r
	type job struct {
		path    string
		bind    int
		arr     []arrival
		special string
		seed    uint64
		debug   bool
		timeout time.Duration
	}
	jobs := []job{}
	// deterministic part: on every path each class as the only datagram and followed by a valid one
	// ("long" = a valid reply with 1 trailing byte, "long64" = with 64: a reader whose buffer is
	// exactly 64 bytes would see either as a valid reply)
	for _, path := range []string{"broadcast", "udp", "tcp"} {
		classes := append([]string{"long64"}, dgClasses...)
		if path != "tcp" {
			classes = append(classes, "empty") // a zero-length datagram (UDP only: an empty TCP write sends nothing)
		}
		for _, cl := range classes {
			jobs = append(jobs, job{path, 0, []arrival{{8, cl}}, "none", r.U64(), false, T})
			jobs = append(jobs, job{path, 0, []arrival{{8, cl}, {30, "valid"}}, "none", r.U64(), false, T})
			jobs = append(jobs, job{path, 0, []arrival{{8, cl}}, "none", r.U64(), true, T}) // the same with the debug flag on
		}
	}
	// a busy network: 300 datagrams from other controllers (and runts) within 60 ms, then the awaited reply - the
	// broadcast path must still be reading when it comes
	{
		many := []arrival{}
		for i := 0; i < 300; i++ {
			many = append(many, arrival{5 + i/5, []string{"wrong-serial", "short", "wrong-serial", "long"}[i%4]})
		}
		many = append(many, arrival{90, "valid"})
		jobs = append(jobs, job{"broadcast", 0, many, "none", r.U64(), false, T})
	}
	// a controller configured with protocol "any" (UDP) that stays silent, answers late, answers well
	for _, arr := range [][]arrival{{}, {{8, "valid"}}, {{int(T.Milliseconds()) * 18 / 10, "valid"}}, {{8, "short"}}} {
		jobs = append(jobs, job{"any", 0, arr, "none", r.U64(), false, T})
	}
	jobs = append(jobs, job{"any", 0, []arrival{}, "stall", r.U64(), false, T}) // silent on UDP, and a TCP endpoint on the same port that would stall
	// a valid reply that arrives in two separately delivered pieces (10 + 54 bytes, 50 ms apart)
	for _, path := range []string{"tcp", "udp", "broadcast"} {
		jobs = append(jobs, job{path, 0, []arrival{{8, "part1"}, {58, "part2"}}, "none", r.U64(), false, T})
	}
	// a continuous flood of irrelevant datagrams, closer together than the timeout, for three timeouts:
	// the call must still end one timeout after it was made (no deadline is re-armed by a stray)
	for _, cl := range []string{"wrong-serial", "short", "long"} {
		flood := []arrival{}
		for t := int(T.Milliseconds()) * 3 / 10; t < int(T.Milliseconds())*3; t += int(T.Milliseconds()) * 3 / 10 {
			flood = append(flood, arrival{t, cl})
		}
		jobs = append(jobs, job{"broadcast", 0, flood, "none", r.U64(), false, T})
	}
	// a client configured with a timeout of zero: every call still returns (with an error: there is no time for a reply)
	for _, path := range []string{"broadcast", "udp", "tcp", "any"} {
		jobs = append(jobs, job{path, 0, []arrival{}, "none", r.U64(), false, 0})
		jobs = append(jobs, job{path, 0, []arrival{{8, "valid"}}, "none", r.U64(), true, 0})
	}
	jobs = append(jobs, job{"tcp", 0, []arrival{}, "stall", r.U64(), false, 0})
	// a TCP controller that takes the request and then resets the connection: one request, an error at once
	jobs = append(jobs, job{"tcp", 0, []arrival{}, "reset-after-request", r.U64(), false, T})
	jobs = append(jobs, job{"tcp", 0, []arrival{{8, "valid"}}, "reset-after-request", r.U64(), true, T})
	N := 40 * c.scale
	for i := 0; i < N; i++ {
		path := rng.Pick(r, "broadcast", "udp", "tcp")
		special := "none"
		if r.Chance(1, 6) {
			special = rng.Pick(r, "refused", "stall", "reset")
			if path != "tcp" && special != "refused" {
				special = "none"
			}
			if path == "broadcast" {
				special = "none"
			}
		}
		jobs = append(jobs, job{path, 0, genArrivalSeq(r), special, r.U64(), i%4 == 3, T})
	}
	// bind port 0: in parallel
	type res struct{ line, out string }
	results := make([]res, len(jobs))
	sem := make(chan struct{}, 16)
	var wg sync.WaitGroup
	for i, j := range jobs {
		wg.Add(1)
		sem <- struct{}{}
		go func(i int, j job) {
			defer wg.Done()
			defer func() { <-sem }()
			l, o := drvCase(c, rng.New(j.seed), j.path, j.bind, j.arr, j.special, j.debug, j.timeout)
			results[i] = res{l, o}
		}(i, j)
	}
	wg.Wait()
	for i, rs := range results {
		c.w.Emit(rs.line, rs.out, "path/"+jobs[i].path, "bind/0", "special/"+jobs[i].special, "outcome/"+strings.SplitN(rs.out, " ", 2)[0])
	}
	// fixed bind port: one after the other (the driver serialises them anyway); UDP paths only
	// (the TCP 4-tuple TIME_WAIT restriction of a fixed source port is finding D14, replayed in `lock`)
	for i := 0; i < N/4; i++ {
		path := rng.Pick(r, "broadcast", "udp")
		l, o := drvCase(c, r, path, freePort(), genArrivalSeq(r), "none", i%3 == 2)
		c.w.Emit(l, o, "path/"+path, "bind/fixed", "outcome/"+strings.SplitN(o, " ", 2)[0])
	}
	slowConnect(c)
	c.w.Notes = append(c.w.Notes, fmt.Sprintf("drv stream: GetCardByID through the real ut0311 driver (timeout %v) against scripted loopback responders on the three paths; arrival sequences of 0..3 datagrams over valid/short/long/wrong-serial/serial-0/wrong-code/wrong-som/malformed, each either early (< 0.45 T) or late (> 1.8 T); TCP accept-and-stall, reset, refused; UDP refused (ICMP); bind port 0 (16 in parallel) and fixed; outcome, time class (<T, =T within %v, >T) and number of requests the responder saw", T, slack))
}

// two calls sharing a fixed bind port: the first controller is silent, the second answers quickly
func streamLock(c *ctx) {
	r := c.r
	for i := 0; i < 3*c.scale; i++ {
		for _, path := range []string{"broadcast", "udp", "tcp"} {
			bind := freePort()
			serial1, serial2 := uint32(1000001), uint32(1000002)
			delay := time.Duration(30+r.Intn(40)) * time.Millisecond
			var ep1, ep2 string
			var closers []func()
			if path == "tcp" {
				a := newTCPResponder("127.0.0.1", nil)
				a.stall = true
				b := newTCPResponder("127.0.0.1", echo(func() time.Duration { return delay }))
				ep1, ep2 = a.addr(), b.addr()
				closers = append(closers, a.close, b.close)
			} else {
				a := newUDPResponder("127.0.0.1", nil) // silent
				b := newUDPResponder("127.0.0.1", echo(func() time.Duration { return delay }))
				ep1, ep2 = a.addr(), b.addr()
				closers = append(closers, a.close, b.close)
			}
			// every second round the two clients name the shared port under different (overlapping) bind addresses
			ip1, note := "", ""
			if i%2 == 1 && path != "tcp" {
				ip1, note = "0.0.0.0", "/first-client-binds-0.0.0.0"
			}
			u1 := newRealClient(clientCfg{path, bind, ip1, false, T}, serial1, ep1)
			u2 := newRealClient(clientCfg{path, bind, "", false, T}, serial2, ep2)
			var wg sync.WaitGroup
			var o1, o2 string
			var e2 time.Duration
			wg.Add(2)
			go func() {
				defer wg.Done()
				_, err := getCard(u1, serial1, 111)
				o1 = map[bool]string{true: "ok", false: "err"}[err == nil]
			}()
			time.Sleep(25 * time.Millisecond) // the second call finds the port taken and waits its turn
			t0 := time.Now()
			go func() {
				defer wg.Done()
				res, err := getCard(u2, serial2, 222)
				e2 = time.Since(t0)
				switch {
				case err != nil:
					o2 = "err"
				case res == nil || res.CardNumber != 222:
					o2 = "crossed"
				default:
					o2 = "ok"
				}
			}()
			wg.Wait()
			for _, f := range closers {
				f()
			}
			within := "in-turn"
			if e2 > 2*T+slack {
				within = "too-late"
			}
			c.w.Emit(fmt.Sprintf("lock %s reply-after=%d%s", path, delay.Milliseconds(), note), fmt.Sprintf("first:%s second:%s %s", o1, o2, within), "lock/"+path, "lock/second-"+o2)
		}
	}
	// three calls queued on one fixed bind port: the first two controllers are silent, so the third call has waited
	// two whole timeouts for the port when its turn comes - its one request must still go out, and the prompt reply
	// be accepted (a deadline taken when the call was MADE has long passed by then)
	for _, path := range []string{"udp", "tcp", "broadcast"} {
		bind := freePort()
		var eps [3]string
		var closers []func()
		var third func() int
		for k := 0; k < 3; k++ {
			script := echo(func() time.Duration { return 20 * time.Millisecond })
			if path == "tcp" {
				a := newTCPResponder("127.0.0.1", script)
				a.stall = k < 2
				eps[k] = a.addr()
				closers = append(closers, a.close)
				third = a.received
			} else {
				if k < 2 {
					script = nil
				}
				a := newUDPResponder("127.0.0.1", script)
				eps[k] = a.addr()
				closers = append(closers, a.close)
				third = a.received
			}
		}
		var wg sync.WaitGroup
		o3 := ""
		for k := 0; k < 3; k++ {
			serial := uint32(1000031 + k)
			u := newRealClient(clientCfg{path, bind, "", false, T}, serial, eps[k])
			wg.Add(1)
			go func(k int) {
				defer wg.Done()
				res, err := getCard(u, serial, uint32(300+k))
				if k == 2 {
					switch {
					case err == errHung:
						o3 = "hung"
					case err == errPanic:
						o3 = "panic"
					case err != nil:
						o3 = "err"
					case res == nil || res.CardNumber != 302:
						o3 = "crossed"
					default:
						o3 = "ok"
					}
				}
			}(k)
			time.Sleep(15 * time.Millisecond) // each later call finds the port taken and queues
		}
		wg.Wait()
		n := third()
		for _, f := range closers {
			f()
		}
		c.w.Emit("lock3 "+path, fmt.Sprintf("third:%s requests=%d", o3, n), "lock/three-queued")
	}
	// two overlapping calls from the same fixed bind port to the SAME controller (one client, then two), the client
	// built with and without a listen address: the second waits for the port, each gets the reply to its own request
	for _, listen := range []string{"listen-address", "no-listen-address"} {
		for _, clients := range []int{1, 2} {
			bind := freePort()
			rs := newUDPResponder("127.0.0.1", echo(func() time.Duration { return 60 * time.Millisecond }))
			ap := netip.MustParseAddrPort(rs.addr())
			mk := func() uhppote.IUHPPOTE {
				la := types.ListenAddr{}
				if listen == "listen-address" {
					la = types.ListenAddrFrom(netip.MustParseAddr("127.0.0.1"), 60001)
				}
				return uhppote.NewUHPPOTE(types.BindAddrFrom(netip.MustParseAddr("127.0.0.1"), uint16(bind)), types.BroadcastAddr{}, la, T,
					[]uhppote.Device{{DeviceID: 1000021, Address: types.ControllerAddrFrom(ap.Addr(), ap.Port()), Protocol: "udp"}}, false)
			}
			u1 := mk()
			u2 := u1
			if clients == 2 {
				u2 = mk()
			}
			outs := make([]string, 2)
			var wg sync.WaitGroup
			for k, u := range []uhppote.IUHPPOTE{u1, u2} {
				wg.Add(1)
				go func(k int, u uhppote.IUHPPOTE) {
					defer wg.Done()
					card := uint32(7000 + k)
					res, err := getCard(u, 1000021, card)
					switch {
					case err != nil:
						outs[k] = "err"
					case res == nil || res.CardNumber != card:
						outs[k] = "crossed"
					default:
						outs[k] = "ok"
					}
				}(k, u)
				time.Sleep(10 * time.Millisecond)
			}
			wg.Wait()
			rs.close()
			c.w.Emit(fmt.Sprintf("lock-same-endpoint udp %s clients=%d", listen, clients), fmt.Sprintf("first:%s second:%s", outs[0], outs[1]), "lock/same-endpoint")
		}
	}
	// the reply to a call that has already timed out arrives at the shared port while the NEXT call (to another
	// controller) is waiting for its own reply: it is not that call's business
	{
		bind := freePort()
		late := newUDPResponder("127.0.0.1", func(req []byte) []step {
			if len(req) != 64 {
				return nil
			}
			return []step{{T + 60*time.Millisecond, cardReply(1000011, 111), false}}
		})
		prompt := newUDPResponder("127.0.0.1", echo(func() time.Duration { return 120 * time.Millisecond }))
		u1 := newRealClient(clientCfg{"broadcast", bind, "", false, T}, 1000011, late.addr())
		u2 := newRealClient(clientCfg{"broadcast", bind, "", false, T}, 1000012, prompt.addr())
		_, err1 := getCard(u1, 1000011, 111)
		res, err2 := getCard(u2, 1000012, 222)
		o1 := map[bool]string{true: "ok", false: "err"}[err1 == nil]
		o2 := "ok"
		switch {
		case err2 != nil:
			o2 = "err"
		case res == nil || res.CardNumber != 222:
			o2 = "crossed"
		}
		late.close()
		prompt.close()
		c.w.Emit("lock-late broadcast", fmt.Sprintf("first:%s second:%s", o1, o2), "lock/late-reply-of-a-failed-call")
	}
	// a call that fails before it has a connection (TCP connect refused) must give the shared port back: the
	// next call from the same fixed bind port, on another path, still gets its answer
	for _, next := range []string{"udp", "broadcast"} {
		bind := freePort()
		refused := fmt.Sprintf("127.0.0.1:%d", freePort())
		u1 := newRealClient(clientCfg{"tcp", bind, "", false, T}, 1000004, refused)
		b := newUDPResponder("127.0.0.1", echo(func() time.Duration { return 10 * time.Millisecond }))
		u2 := newRealClient(clientCfg{next, bind, "", false, T}, 1000005, b.addr())
		_, err1 := getCard(u1, 1000004, 444)
		res, err2 := getCard(u2, 1000005, 555)
		b.close()
		o2 := "ok"
		switch {
		case err2 == errHung:
			o2 = "hung"
		case err2 != nil:
			o2 = "err"
		case res == nil || res.CardNumber != 555:
			o2 = "crossed"
		}
		c.w.Emit("lockfail tcp-refused-then-"+next, fmt.Sprintf("first:%s second:%s", map[bool]string{true: "ok", false: "err"}[err1 == nil], o2), "lock/after-failed-dial")
	}
	// D14: TCP with a fixed bind port, two calls to the SAME endpoint in a row (client closes first)
	{
		o := func(e error) string {
			if e == nil {
				return "ok"
			}
			return "err"
		}
		// (the kernel lets a TIME_WAIT 4-tuple on loopback be taken again once its clock has ticked: the history is played
		// up to three times, on a fresh port each, and the first one in which the second call fails is the one reported)
		out := ""
		for attempt := 0; attempt < 3; attempt++ {
			bind := freePort()
			b := newTCPResponder("127.0.0.1", echo(func() time.Duration { return 5 * time.Millisecond }))
			u := newRealClient(clientCfg{"tcp", bind, "", false, T}, 1000003, b.addr())
			_, err1 := getCard(u, 1000003, 333)
			_, err2 := getCard(u, 1000003, 333)
			b.close()
			out = fmt.Sprintf("first:%s second:%s", o(err1), o(err2))
			if err2 != nil {
				break
			}
		}
		c.w.Emit("lock tcp-same-endpoint-twice", out, "lock/tcp-time-wait")
	}
	c.w.Notes = append(c.w.Notes, "lock stream: two clients sharing one fixed bind port; the first call's controller is silent (holds the port for the whole timeout), the second call is issued 25 ms later to a controller that answers within 30..70 ms: it must wait its turn and then succeed with its own reply; plus the TCP same-endpoint-twice history of finding D14")
}

// descriptors and goroutines before / after a batch of calls with every kind of network behaviour
func streamLeak(c *ctx) {
	r := c.r
	for round := 0; round < 2*c.scale; round++ {
		fd0, g0 := settle()
		n := 0
		for i := 0; i < 12; i++ {
			path := rng.Pick(r, "broadcast", "udp", "tcp")
			special := rng.Pick(r, "none", "none", "refused", "stall")
			if path != "tcp" && special == "stall" {
				special = "none"
			}
			if path == "broadcast" {
				special = "none"
			}
			drvCase(c, r, path, 0, genArrivalSeq(r), special, n%5 == 4)
			n++
		}
		// discovery starts a reader goroutine per call
		rs := newUDPResponder("127.0.0.1", func(req []byte) []step { return []step{{5 * time.Millisecond, cardReply(1, 1), false}} })
		u := newRealClient(clientCfg{"broadcast", 0, "", false, T}, 1, rs.addr())
		u.GetDevices()
		u.GetDevices()
		rs.close()
		// the event listener: a start/stop cycle, and three starts that fail because the listen port is taken
		{
			port := freePort()
			ul := uhppote.NewUHPPOTE(types.BindAddrFrom(netip.MustParseAddr("127.0.0.1"), 0), types.BroadcastAddr{},
				types.ListenAddrFrom(netip.MustParseAddr("127.0.0.1"), uint16(port)), T, nil, false)
			connected := make(chan struct{}, 1)
			l := &cbListener{onConnected: func() { connected <- struct{}{} }, onEvent: func(*types.Status) {}, onError: func(error) {}}
			q := make(chan os.Signal, 1)
			done := make(chan error, 1)
			go func() { done <- ul.Listen(l, q) }()
			select {
			case <-connected:
			case <-time.After(time.Second):
			}
			q <- syscall.SIGINT
			select {
			case <-done:
			case <-time.After(2 * time.Second):
			}
			squat, err := net.ListenUDP("udp4", &net.UDPAddr{IP: net.IPv4(127, 0, 0, 1), Port: port})
			if err == nil {
				for i := 0; i < 3; i++ {
					l2 := &cbListener{onConnected: func() {}, onEvent: func(*types.Status) {}, onError: func(error) {}}
					ul.Listen(l2, make(chan os.Signal, 1)) // returns an error at once
				}
				squat.Close()
			}
			n += 4
		}
		time.Sleep(3*T + 50*time.Millisecond) // stalled TCP responders finish
		fd1, g1 := settle()
		out := "restored"
		if fd1 > fd0 || g1 > g0 {
			out = fmt.Sprintf("leaked sockets:%d->%d goroutines:%d->%d", fd0, fd1, g0, g1)
		}
		c.w.Emit(fmt.Sprintf("leak round=%d calls=%d", round, n+2), out, "leak")
	}
	_ = net.IPv4zero
	_ = cases.Hex
	c.w.Notes = append(c.w.Notes, "leak stream: socket descriptors (/proc/self/fd) and goroutines before and after batches of 12 calls over all paths with silence / late / stray / refused / stalled behaviours plus two discoveries, one listen start/stop cycle and three listens that fail because the port is taken")
}

// slowConnect: a TCP controller whose handshake is slow - its accept queue (listen backlog 0) is full when the first
// SYN arrives, the kernel drops it and the client's retransmission a second later gets through once the queue has been
// drained - and which then never answers. The time spent connecting is part of the one timeout: the call must fail one
// timeout after it was made, not one timeout after the connection came up. (Linux: raw listen() with backlog 0.)
func slowConnect(c *ctx) {
	const timeout = 2500 * time.Millisecond
	fd, err := syscall.Socket(syscall.AF_INET, syscall.SOCK_STREAM, 0)
	if err != nil {
		return
	}
	defer func() { syscall.Shutdown(fd, syscall.SHUT_RDWR); syscall.Close(fd) }()
	if syscall.Bind(fd, &syscall.SockaddrInet4{Addr: [4]byte{127, 0, 0, 1}}) != nil || syscall.Listen(fd, 0) != nil {
		return
	}
	sa, err := syscall.Getsockname(fd)
	if err != nil {
		return
	}
	port := sa.(*syscall.SockaddrInet4).Port
	address := fmt.Sprintf("127.0.0.1:%d", port)
	filler, err := net.DialTimeout("tcp4", address, time.Second)
	if err != nil {
		return
	}
	defer filler.Close()
	// the rig works only if a further connection attempt does not get through while the queue is full
	if probe, err := net.DialTimeout("tcp4", address, 300*time.Millisecond); err == nil {
		probe.Close()
		c.w.Notes = append(c.w.Notes, "slow-connect: the accept queue did not fill up on this system: scenario skipped")
		return
	}
	held := make(chan int, 4)
	go func() {
		time.Sleep(400 * time.Millisecond)
		for i := 0; i < 2; i++ { // the filler, then the library's connection (blocks until its handshake completes)
			if nfd, _, err := syscall.Accept(fd); err == nil {
				held <- nfd
			}
		}
	}()
	ap := netip.MustParseAddrPort(address)
	u := uhppote.NewUHPPOTE(types.BindAddrFrom(netip.MustParseAddr("127.0.0.1"), 0), types.BroadcastAddr{}, types.ListenAddrFrom(netip.MustParseAddr("127.0.0.1"), 60001), timeout,
		[]uhppote.Device{{DeviceID: 1000009, Address: types.ControllerAddrFrom(ap.Addr(), ap.Port()), Protocol: "tcp"}}, false)
	t0 := time.Now()
	done := make(chan error, 1)
	go func() { _, err := u.GetCardByID(1000009, 1); done <- err }()
	out := "hung"
	select {
	case err := <-done:
		out = "ok"
		if err != nil {
			out = "err"
		}
	case <-time.After(4 * timeout):
	}
	el := time.Since(t0)
	class := "=T"
	switch {
	case el < timeout-150*time.Millisecond:
		class = "<T"
	case el > timeout+600*time.Millisecond:
		class = ">T"
	}
	for len(held) > 0 {
		syscall.Close(<-held)
	}
	c.w.Emit(fmt.Sprintf("slow-connect tcp T=%d connect=1000", timeout.Milliseconds()), out+" "+class, "slow-connect")
}
