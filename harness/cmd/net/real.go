package main

import (
	"fmt"
	"net"
	"net/netip"
	"os"
	"sort"
	"strings"
	"sync"
	"syscall"
	"time"

	codec "github.com/uhppoted/uhppote-core/encoding/UTO311-L0x"
	"github.com/uhppoted/uhppote-core/messages"
	"github.com/uhppoted/uhppote-core/types"
	"github.com/uhppoted/uhppote-core/uhppote"

	"verif/harness/internal/cases"
	"verif/harness/internal/rng"
)

func init() {
	streams["route"] = streamRoute
	streams["rlisten"] = streamRListen
	streams["rdiscover"] = streamRDiscover
}

// a farm of endpoints on 127.0.0.2..5 (UDP and TCP each): which of them hears a request, how many
// times, and from which source port
func streamRoute(c *ctx) {
	r := c.r
	ips := []string{"127.0.0.2", "127.0.0.3", "127.0.0.4", "127.0.0.5"}
	for n := 0; n < 12*c.scale+3; n++ {
		udps := []*udpResponder{}
		tcps := []*tcpResponder{}
		for _, ip := range ips {
			udps = append(udps, newUDPResponder(ip, echo(func() time.Duration { return 3 * time.Millisecond })))
			tcps = append(tcps, newTCPResponder(ip, echo(func() time.Duration { return 3 * time.Millisecond })))
		}
		serial := uint32(5000001 + n)
		// the controller under test may be: unconfigured, configured without usable address, udp, tcp, other protocol
		mode := rng.Pick(r, "unconfigured", "no-address", "zero-address", "udp", "tcp", "any", "udp", "tcp")
		k := r.Intn(len(ips))
		bindPort := rng.Pick(r, 0, 0, freePort())
		// every run starts with each mode under bind port 0 and under a fixed bind port
		if modes := []string{"unconfigured", "no-address", "zero-address", "udp", "tcp", "any"}; n < 2*len(modes) {
			mode = modes[n/2]
			bindPort = []int{0, freePort()}[n%2]
		}
		// the last three: the bind address names the port only (0.0.0.0:P) - the port still is the configured one
		bindIP, bindNote := "127.0.0.9", ""
		if w := n - 12*c.scale; w >= 0 {
			mode, bindPort, bindIP, bindNote = []string{"tcp", "udp", "unconfigured"}[w], freePort(), "0.0.0.0", "-any-address"
		}
		bcast := r.Intn(len(ips)) // the broadcast address is endpoint `bcast` (UDP)
		devices := []uhppote.Device{}
		uap := netip.MustParseAddrPort(udps[k].addr())
		tap := netip.MustParseAddrPort(tcps[k].addr())
		want := ""
		switch mode {
		case "unconfigured":
			want = fmt.Sprintf("udp:%d", bcast)
		case "no-address":
			devices = append(devices, uhppote.Device{DeviceID: serial, Protocol: "tcp"})
			want = fmt.Sprintf("udp:%d", bcast)
		case "zero-address":
			devices = append(devices, uhppote.Device{DeviceID: serial, Address: types.ControllerAddrFrom(netip.MustParseAddr("0.0.0.0"), 60000), Protocol: "udp"})
			want = fmt.Sprintf("udp:%d", bcast)
		case "udp", "any":
			devices = append(devices, uhppote.Device{DeviceID: serial, Address: types.ControllerAddrFrom(uap.Addr(), uap.Port()), Protocol: mode})
			want = fmt.Sprintf("udp:%d", k)
		case "tcp":
			devices = append(devices, uhppote.Device{DeviceID: serial, Address: types.ControllerAddrFrom(tap.Addr(), tap.Port()), Protocol: "tcp"})
			want = fmt.Sprintf("tcp:%d", k)
		}
		// a second configured controller that must hear nothing
		o := (k + 1) % len(ips)
		oap := netip.MustParseAddrPort(udps[o].addr())
		devices = append(devices, uhppote.Device{DeviceID: serial + 100000, Address: types.ControllerAddrFrom(oap.Addr(), oap.Port()), Protocol: "udp"})
		bap := netip.MustParseAddrPort(udps[bcast].addr())
		// the bind ADDRESS is one no responder lives on and not the one the kernel would pick by itself
		u := uhppote.NewUHPPOTE(types.BindAddrFrom(netip.MustParseAddr(bindIP), uint16(bindPort)), types.BroadcastAddrFrom(bap.Addr(), bap.Port()),
			types.ListenAddrFrom(netip.MustParseAddr("127.0.0.1"), 60001), T, devices, false)
		_, err := getCard(u, serial, 424242)
		time.Sleep(20 * time.Millisecond)
		heard := []string{}
		src := ""
		for i := range ips {
			if nn := udps[i].received(); nn > 0 {
				heard = append(heard, fmt.Sprintf("udp:%d x%d", i, nn))
				src = udps[i].from[0]
			}
			if nn := tcps[i].received(); nn > 0 {
				heard = append(heard, fmt.Sprintf("tcp:%d x%d", i, nn))
				src = tcps[i].from[0]
			}
			udps[i].close()
			tcps[i].close()
		}
		srcOK := "source-port-ephemeral"
		if bindPort != 0 {
			srcOK = "source-port-other"
			if strings.HasSuffix(src, fmt.Sprintf(":%d", bindPort)) {
				srcOK = "source-port-bound"
			}
		}
		if bindIP != "0.0.0.0" && !strings.HasPrefix(src, "127.0.0.9:") {
			srcOK = "source-address-other"
		}
		res := "ok"
		if err != nil {
			res = "err"
		}
		c.w.Emit(fmt.Sprintf("route mode=%s bind=%s%s want=%s", mode, map[bool]string{true: "0", false: "fixed"}[bindPort == 0], bindNote, want),
			fmt.Sprintf("%s heard=[%s] %s", res, strings.Join(heard, ","), srcOK), "route/"+mode)
	}
	// two TCP calls in a row from a fixed bind port to the same endpoint: whether the kernel lets the second one connect is
	// not the library's business (known finding D14), but no request may leave from any port other than the bound one
	{
		bind := freePort()
		rs := newTCPResponder("127.0.0.6", echo(func() time.Duration { return 3 * time.Millisecond }))
		ap := netip.MustParseAddrPort(rs.addr())
		u := uhppote.NewUHPPOTE(types.BindAddrFrom(netip.MustParseAddr("127.0.0.9"), uint16(bind)), types.BroadcastAddr{}, types.ListenAddrFrom(netip.MustParseAddr("127.0.0.1"), 60001), T,
			[]uhppote.Device{{DeviceID: 5100001, Address: types.ControllerAddrFrom(ap.Addr(), ap.Port()), Protocol: "tcp"}}, false)
		for i := 0; i < 3; i++ {
			getCard(u, 5100001, 424242)
		}
		time.Sleep(20 * time.Millisecond)
		from := "all-from-bind-address-and-port"
		for _, f := range rs.from {
			if f != fmt.Sprintf("127.0.0.9:%d", bind) {
				from = "from-another-address-or-port"
			}
		}
		if rs.received() == 0 {
			from = "nothing-received"
		}
		rs.close()
		c.w.Emit("route-twice tcp bind=fixed", from, "route/tcp-same-endpoint-repeated")
	}
	// a broadcast-routed call from a fixed bind port that times out, then a call to a configured controller from the
	// same port: the first call must have given the port back (whatever path it failed on)
	{
		bind := freePort()
		silent := newUDPResponder("127.0.0.6", nil)
		rs := newUDPResponder("127.0.0.7", echo(func() time.Duration { return 3 * time.Millisecond }))
		sap := netip.MustParseAddrPort(silent.addr())
		ap := netip.MustParseAddrPort(rs.addr())
		u := uhppote.NewUHPPOTE(types.BindAddrFrom(netip.MustParseAddr("127.0.0.9"), uint16(bind)), types.BroadcastAddrFrom(sap.Addr(), sap.Port()), types.ListenAddrFrom(netip.MustParseAddr("127.0.0.1"), 60001), T,
			[]uhppote.Device{{DeviceID: 5300002, Address: types.ControllerAddrFrom(ap.Addr(), ap.Port()), Protocol: "udp"}}, false)
		_, err1 := getCard(u, 5300001, 424242) // unconfigured: broadcast, nobody answers
		_, err2 := getCard(u, 5300002, 424242)
		time.Sleep(20 * time.Millisecond)
		from := "from-bound-port"
		rs.mu.Lock()
		if len(rs.from) != 1 || rs.from[0] != fmt.Sprintf("127.0.0.9:%d", bind) {
			from = fmt.Sprintf("heard=%d", len(rs.from))
		}
		rs.mu.Unlock()
		silent.close()
		rs.close()
		c.w.Emit("route-after-timeout udp", fmt.Sprintf("first:%s second:%s %s", map[bool]string{true: "ok", false: "err"}[err1 == nil], map[bool]string{true: "ok", false: "err"}[err2 == nil], from), "route/after-a-timed-out-broadcast")
	}
	discoverDuringCall(c)
	// the (bind address:port -> controller) TCP 4-tuple is taken by another connection when the call is made (another process
	// sharing the bind port, or the previous connection still in TIME_WAIT): the call may fail, but nothing may reach the
	// controller from any other source address or port
	{
		bind := freePort()
		rs := newTCPResponder("127.0.0.7", echo(func() time.Duration { return 3 * time.Millisecond }))
		ap := netip.MustParseAddrPort(rs.addr())
		occupied := "occupied"
		d := net.Dialer{Timeout: time.Second, LocalAddr: &net.TCPAddr{IP: net.IPv4(127, 0, 0, 9), Port: bind},
			Control: func(network, address string, c syscall.RawConn) error {
				var operr error
				if err := c.Control(func(fd uintptr) { operr = syscall.SetsockoptInt(int(fd), syscall.SOL_SOCKET, syscall.SO_REUSEADDR, 1) }); err != nil {
					return err
				}
				return operr
			}}
		hold, err := d.Dial("tcp4", rs.addr())
		if err != nil {
			occupied = "not-occupied"
		}
		u := uhppote.NewUHPPOTE(types.BindAddrFrom(netip.MustParseAddr("127.0.0.9"), uint16(bind)), types.BroadcastAddr{}, types.ListenAddrFrom(netip.MustParseAddr("127.0.0.1"), 60001), T,
			[]uhppote.Device{{DeviceID: 5200001, Address: types.ControllerAddrFrom(ap.Addr(), ap.Port()), Protocol: "tcp"}}, false)
		for i := 0; i < 2; i++ {
			getCard(u, 5200001, 424242)
		}
		time.Sleep(20 * time.Millisecond)
		from := "nothing-from-another-address-or-port"
		rs.mu.Lock()
		for _, f := range rs.from {
			if f != fmt.Sprintf("127.0.0.9:%d", bind) {
				from = "from-another-address-or-port"
			}
		}
		rs.mu.Unlock()
		if hold != nil {
			hold.Close()
		}
		rs.close()
		if occupied == "occupied" {
			c.w.Emit("route-occupied tcp bind=fixed", occupied+" "+from, "route/tcp-4-tuple-occupied")
		} else {
			c.w.Notes = append(c.w.Notes, "route-occupied: the harness could not take the 4-tuple itself ("+err.Error()+"): scenario skipped")
		}
	}
	c.w.Notes = append(c.w.Notes, "route stream: 8 loopback endpoints (127.0.0.2..5, UDP and TCP); a controller that is unconfigured / configured without address / with 0.0.0.0 / udp / tcp / other protocol; bind port 0 and fixed; which endpoints receive the single request and from which source address and port")
}

// the real listener on a loopback port
// discovery started while a call holds the fixed bind port for a whole timeout (its controller is silent): discovery
// waits its turn, is sent from the configured bind address and port, and still collects for a whole timeout
func discoverDuringCall(c *ctx) {
	bind := freePort()
	silent := newUDPResponder("127.0.0.6", nil)
	disc := newUDPResponder("127.0.0.7", func(req []byte) []step {
		reply := messages.GetDeviceResponse{SerialNumber: 5400009, IpAddress: net.IPv4(127, 0, 0, 7), SubnetMask: net.IPv4(255, 0, 0, 0),
			Gateway: net.IPv4(127, 0, 0, 1), MacAddress: types.MacAddress{1, 2, 3, 4, 5, 6}, Version: 0x0892, Date: types.ToDate(2024, 1, 1)}
		b, _ := codec.Marshal(reply)
		return []step{{T / 4, b, false}}
	})
	sap := netip.MustParseAddrPort(silent.addr())
	dap := netip.MustParseAddrPort(disc.addr())
	u := uhppote.NewUHPPOTE(types.BindAddrFrom(netip.MustParseAddr("127.0.0.9"), uint16(bind)), types.BroadcastAddrFrom(dap.Addr(), dap.Port()), types.ListenAddrFrom(netip.MustParseAddr("127.0.0.1"), 60001), T,
		[]uhppote.Device{{DeviceID: 5400001, Address: types.ControllerAddrFrom(sap.Addr(), sap.Port()), Protocol: "udp"}}, false)
	callErr := make(chan error, 1)
	go func() {
		_, err := getCard(u, 5400001, 424242)
		callErr <- err
	}()
	time.Sleep(T / 5) // the call is under way
	devs, derr := u.GetDevices()
	err1 := <-callErr
	time.Sleep(20 * time.Millisecond)
	from := "from-bound-port"
	disc.mu.Lock()
	if len(disc.from) != 1 || disc.from[0] != fmt.Sprintf("127.0.0.9:%d", bind) {
		from = fmt.Sprintf("heard=%d-not-from-the-bound-port", len(disc.from))
	}
	disc.mu.Unlock()
	silent.close()
	disc.close()
	found := fmt.Sprintf("discovered=%d", len(devs))
	if derr != nil {
		found = "discovery-failed"
	}
	c.w.Emit("discover-during-call udp", fmt.Sprintf("call:%s %s %s", map[bool]string{true: "ok", false: "err"}[err1 == nil], found, from), "route/discovery-behind-a-call")
}

// three discoveries at the same moment from sockets that share nothing (bind port 0): each lasts one timeout, none
// waits for another - from one client on three goroutines, and from three clients
func discoverParallel(c *ctx) {
	for _, mode := range []string{"one-client", "three-clients"} {
		rs := newUDPResponder("127.0.0.1", func(req []byte) []step {
			reply := messages.GetDeviceResponse{SerialNumber: 5500001, IpAddress: net.IPv4(127, 0, 0, 1), SubnetMask: net.IPv4(255, 0, 0, 0),
				Gateway: net.IPv4(127, 0, 0, 1), MacAddress: types.MacAddress{1, 2, 3, 4, 5, 6}, Version: 0x0892, Date: types.ToDate(2024, 1, 1)}
			b, _ := codec.Marshal(reply)
			return []step{{5 * time.Millisecond, b, false}}
		})
		ap := netip.MustParseAddrPort(rs.addr())
		mk := func() uhppote.IUHPPOTE {
			return uhppote.NewUHPPOTE(types.BindAddrFrom(netip.MustParseAddr("127.0.0.1"), 0), types.BroadcastAddrFrom(ap.Addr(), ap.Port()),
				types.ListenAddrFrom(netip.MustParseAddr("127.0.0.1"), 60001), T, nil, false)
		}
		shared := mk()
		var wg sync.WaitGroup
		var mu sync.Mutex
		found, classes := 0, map[string]int{}
		for g := 0; g < 3; g++ {
			u := shared
			if mode == "three-clients" {
				u = mk()
			}
			wg.Add(1)
			go func(u uhppote.IUHPPOTE) {
				defer wg.Done()
				t0 := time.Now()
				devs, err := u.GetDevices()
				el := time.Since(t0)
				mu.Lock()
				if err == nil && len(devs) == 1 {
					found++
				}
				classes[timeClass(el)]++
				mu.Unlock()
			}(u)
		}
		wg.Wait()
		rs.close()
		out := "all-found"
		if found != 3 {
			out = fmt.Sprintf("found-by-%d-of-3", found)
		}
		if classes["=T"] == 3 {
			out += " all=T"
		} else {
			out += fmt.Sprintf(" times=%v", classes)
		}
		c.w.Emit("discover-parallel "+mode+" bind=0", out, "rdiscover/parallel")
	}
}

// discoverStraddle: replies still streaming in at the very moment the discovery window closes (one every half
// millisecond from 20 ms before to 20 ms after the deadline). Which of them are listed is not specified; what is: every
// entry is one of the replies sent, none twice, the call returns - and (under the race detector) the collector and the
// returning caller do not touch the list at the same time
func discoverStraddle(c *ctx) {
	before := raceReports()
	rs := newUDPResponder("127.0.0.1", func(req []byte) []step {
		out := []step{}
		for i := 0; i < 80; i++ {
			reply := messages.GetDeviceResponse{SerialNumber: types.SerialNumber(5600001 + i), IpAddress: net.IPv4(127, 0, 0, 1), SubnetMask: net.IPv4(255, 0, 0, 0),
				Gateway: net.IPv4(127, 0, 0, 1), MacAddress: types.MacAddress{1, 2, 3, 4, 5, 6}, Version: 0x0892, Date: types.ToDate(2024, 1, 1)}
			b, _ := codec.Marshal(reply)
			out = append(out, step{T - 20*time.Millisecond + time.Duration(i)*500*time.Microsecond, b, false})
		}
		return out
	})
	ap := netip.MustParseAddrPort(rs.addr())
	var wg sync.WaitGroup
	var mu sync.Mutex
	bad := 0
	for g := 0; g < 6; g++ {
		wg.Add(1)
		go func() {
			defer wg.Done()
			u := uhppote.NewUHPPOTE(types.BindAddrFrom(netip.MustParseAddr("127.0.0.1"), 0), types.BroadcastAddrFrom(ap.Addr(), ap.Port()),
				types.ListenAddrFrom(netip.MustParseAddr("127.0.0.1"), 60001), T, nil, false)
			for k := 0; k < 8*c.scale; k++ {
				devs, err := u.GetDevices()
				seen := map[uint32]bool{}
				wrong := err != nil
				for _, d := range devs {
					id := uint32(d.SerialNumber)
					if id < 5600001 || id > 5600080 || seen[id] {
						wrong = true
					}
					seen[id] = true
				}
				if wrong {
					mu.Lock()
					bad++
					mu.Unlock()
				}
			}
		}()
	}
	wg.Wait()
	rs.close()
	time.Sleep(20 * time.Millisecond)
	out := "consistent"
	if bad > 0 {
		out = fmt.Sprintf("inconsistent-lists=%d", bad)
	}
	if d := raceReports() - before; d > 0 {
		out += fmt.Sprintf(" races=%d", d)
	}
	c.w.Emit("discover-straddle bind=0", out, "rdiscover/replies-at-the-deadline")
}

func streamRListen(c *ctx) {
	r := c.r
	for n := 0; n < 6*c.scale; n++ {
		port := freePort()
		// every second client is built with the debug flag on (logging only: nothing observable may depend on it)
		// the client's timeout is about requests: the listener must not depend on it (0 and 5 ms for two of six clients)
		timeout := T
		switch n % 6 {
		case 4:
			timeout = 0
		case 5:
			timeout = 5 * time.Millisecond
		}
		// every second client has a fixed bind port (the source of its REQUESTS: nothing to do with listening), and one of the
		// two event senders happens to send from exactly that address and port
		bindPort := 0
		if n%2 == 0 {
			bindPort = freePort()
		}
		u := uhppote.NewUHPPOTE(types.BindAddrFrom(netip.MustParseAddr("127.0.0.1"), uint16(bindPort)), types.BroadcastAddr{},
			types.ListenAddrFrom(netip.MustParseAddr("127.0.0.1"), uint16(port)), timeout, nil, n%2 == 1)
		racesBefore := raceReports()
		res := []string{}
		for cycle := 0; cycle < 3; cycle++ { // stop and re-bind immediately
			var mu sync.Mutex
			evs, errs, conn := []uint32{}, 0, 0
			slowFirst := cycle == 1 // the application is busy with the first event while the others arrive
			// ... and in one cycle of one client it is still busy with it, for a second and a half, when the listener is
			// told to stop: Listen returns only when everything it has read is handed over, nothing is lost, nothing crashes
			busyStop := n%6 == 3 && cycle == 2
			l := &cbListener{
				onConnected: func() { mu.Lock(); conn++; mu.Unlock() },
				onEvent: func(s *types.Status) {
					mu.Lock()
					first := len(evs) == 0
					evs = append(evs, s.Event.Index)
					mu.Unlock()
					if slowFirst && first {
						time.Sleep(60 * time.Millisecond)
					}
					if busyStop && first {
						time.Sleep(1500 * time.Millisecond)
					}
				},
				onError: func(error) { mu.Lock(); errs++; mu.Unlock() },
				stop:    n%3 == 2,
			}
			q := make(chan os.Signal, 1)
			done := make(chan error, 1)
			go func() { done <- u.Listen(l, q) }()
			deadline := time.Now().Add(time.Second)
			for {
				mu.Lock()
				ok := conn > 0
				mu.Unlock()
				if ok || time.Now().After(deadline) {
					break
				}
				time.Sleep(time.Millisecond)
			}
			k := 4 + r.Intn(5)
			want := []uint32{}
			bad := 0
			senders := []net.Conn{}
			for i := 0; i < 2; i++ {
				var laddr *net.UDPAddr
				if i == 1 && bindPort != 0 {
					laddr = &net.UDPAddr{IP: net.IPv4(127, 0, 0, 1), Port: bindPort}
				}
				s, err := net.DialUDP("udp4", laddr, &net.UDPAddr{IP: net.IPv4(127, 0, 0, 1), Port: port})
				if err != nil && laddr != nil {
					s, err = net.DialUDP("udp4", nil, &net.UDPAddr{IP: net.IPv4(127, 0, 0, 1), Port: port})
				}
				if err == nil {
					senders = append(senders, s)
				}
			}
			for i := 0; i < k && len(senders) > 0; i++ {
				ev := messages.GetStatusResponse{SerialNumber: 405419896, EventIndex: uint32(1000*cycle + i + 1), Timestamp: types.DateTime(time.Date(2024, 1, 2, 3, 4, 5, 0, time.Local)),
					SystemDate: types.SystemDate(time.Date(2024, 1, 2, 0, 0, 0, 0, time.Local)), SystemTime: types.SystemTime(time.Date(0, 1, 1, 3, 4, 5, 0, time.Local))}
				b, _ := codec.Marshal(ev)
				s := senders[i%len(senders)]
				kind := r.Intn(5)
				if cycle == 0 && i < 3 {
					kind = []int{4, 2, 5}[i] // every run: over-long datagrams (valid event + 1 / + 64 bytes), which must be errors
				} else if cycle == 0 && i == 3 {
					kind = 6 // ... and a zero-length datagram
				}
				switch kind {
				case 0:
					s.Write(b[:rng.Pick(r, 1, 63)])
					bad++
				case 4:
					s.Write(append(append([]byte{}, b...), 0x00))
					bad++
				case 5:
					s.Write(append(append([]byte{}, b...), b...))
					bad++
				case 6:
					s.Write([]byte{})
					bad++
				case 1:
					b[0] = 0x19
					s.Write(b)
					want = append(want, ev.EventIndex)
				default:
					s.Write(b)
					want = append(want, ev.EventIndex)
				}
				time.Sleep(2 * time.Millisecond) // UDP on loopback keeps the order of a paced sender
			}
			for _, s := range senders {
				s.Close()
			}
			wait := time.Now().Add(time.Second)
			if busyStop {
				wait = time.Now().Add(150 * time.Millisecond)
			}
			for {
				mu.Lock()
				got := len(evs) + errs
				mu.Unlock()
				if got >= len(want)+bad || time.Now().After(wait) {
					break
				}
				time.Sleep(time.Millisecond)
			}
			q <- syscall.SIGINT
			end := "hung"
			select {
			case err := <-done:
				end = "returned"
				if err != nil {
					end = "returned-error"
				}
			case <-time.After(5 * time.Second):
			}
			if busyStop { // what was read before the stop is still handed over (the dispatcher may finish after Listen returned)
				for until := time.Now().Add(3 * time.Second); time.Now().Before(until); time.Sleep(5 * time.Millisecond) {
					mu.Lock()
					got := len(evs) + errs
					mu.Unlock()
					if got >= len(want)+bad {
						break
					}
				}
			}
			mu.Lock()
			ok := fmt.Sprint(evs) == fmt.Sprint(want) && errs == bad && conn == 1
			if busyStop {
				// datagrams the library had not read yet when it was told to stop are not "received": what must hold is that
				// those it did hand over are the first ones sent, in order, once each - and that nothing crashed or hung
				prefix := len(evs) <= len(want)
				for i := 0; prefix && i < len(evs); i++ {
					prefix = evs[i] == want[i]
				}
				ok = prefix && errs <= bad && conn == 1
			}
			mu.Unlock()
			if ok && end == "returned" {
				res = append(res, "cycle-ok")
			} else {
				res = append(res, fmt.Sprintf("cycle-bad(events=%v want=%v errors=%d/%d connected=%d %s)", evs, want, errs, bad, conn, end))
			}
		}
		if d := raceReports() - racesBefore; d > 0 { // (under the race detector only)
			res = append(res, fmt.Sprintf("races=%d", d))
		}
		c.w.Emit(fmt.Sprintf("rlisten port=%d cycles=3 timeout=%d", port, timeout.Milliseconds()), strings.Join(res, " "), "rlisten", fmt.Sprintf("timeout/%v", timeout))
	}
	// the listener is told to stop while its error callback is still busy with a malformed datagram, and that callback
	// answers "do not go on" (returns false), for two datagrams in a row: Listen still returns
	{
		port := freePort()
		u := uhppote.NewUHPPOTE(types.BindAddrFrom(netip.MustParseAddr("127.0.0.1"), 0), types.BroadcastAddr{},
			types.ListenAddrFrom(netip.MustParseAddr("127.0.0.1"), uint16(port)), T, nil, false)
		entered := make(chan struct{}, 8)
		connected := make(chan struct{}, 1)
		l := &cbListener{
			onConnected: func() { connected <- struct{}{} },
			onEvent:     func(*types.Status) {},
			onError: func(error) {
				entered <- struct{}{}
				time.Sleep(300 * time.Millisecond)
			},
			stop: true,
		}
		q := make(chan os.Signal, 1)
		done := make(chan error, 1)
		go func() { done <- u.Listen(l, q) }()
		select {
		case <-connected:
		case <-time.After(time.Second):
		}
		out := "no-error-callback"
		if s, err := net.Dial("udp4", fmt.Sprintf("127.0.0.1:%d", port)); err == nil {
			s.Write([]byte{0x17, 0x20, 0x00})
			s.Write([]byte{0x17, 0x20, 0x01})
			s.Close()
			select {
			case <-entered:
				q <- syscall.SIGINT
				select {
				case err := <-done:
					out = "returned"
					if err != nil {
						out = "returned-error"
					}
				case <-time.After(5 * time.Second):
					out = "hung"
				}
			case <-time.After(2 * time.Second):
			}
		}
		c.w.Emit("rlisten-stop-during-onerror", out, "rlisten/stop-during-callback")
	}
	c.w.Notes = append(c.w.Notes, "rlisten stream: the real UDP listener on a loopback port, 3 start / stop cycles with immediate re-bind; per cycle 3..8 datagrams from two senders (valid, v6.62, truncated, valid event followed by 1 or 64 more bytes); events must arrive once each in order (in the second cycle while the callback is still busy with the first one), one error per malformed datagram, connected once, Listen returns nil; every second client with the debug flag on")
	_ = cases.Hex
}

type cbListener struct {
	onConnected func()
	onEvent     func(*types.Status)
	onError     func(error)
	stop        bool // OnError returns false
}

func (l *cbListener) OnConnected()            { l.onConnected() }
func (l *cbListener) OnEvent(s *types.Status) { l.onEvent(s) }
func (l *cbListener) OnError(err error) bool  { l.onError(err); return !l.stop }

// discovery against a responder that answers the broadcast with several datagrams
func streamRDiscover(c *ctx) {
	r := c.r
	for n := 0; n < 8*c.scale; n++ {
		k := r.Intn(6)
		type planned struct {
			delay  time.Duration
			serial uint32
			class  string
		}
		plan := []planned{}
		t := 0
		for i := 0; i < k; i++ {
			t += 3 + r.Intn(20)
			d := time.Duration(t) * time.Millisecond
			if r.Chance(1, 6) {
				d = T + slack + time.Duration(r.Intn(50))*time.Millisecond // after the window
			}
			plan = append(plan, planned{d, uint32(6000001 + r.Intn(3)), rng.Pick(r, "valid", "valid", "valid", "valid-other-port", "short", "wrong-code", "bad-bcd", "long", "long64", "empty")})
		}
		if n == 0 { // every run: over-long datagrams whose first 64 bytes are a valid reply, between two valid replies
			plan = []planned{{5 * time.Millisecond, 6000001, "valid"}, {12 * time.Millisecond, 6000002, "long"}, {20 * time.Millisecond, 6000003, "long64"}, {28 * time.Millisecond, 6000002, "valid"},
				{36 * time.Millisecond, 6000001, "empty"}, {44 * time.Millisecond, 6000003, "valid"}, {52 * time.Millisecond, 6000001, "valid-other-port"}}
		}
		if n == 1 { // every run: 300 malformed datagrams within 60 ms, then two valid replies well inside the window
			plan = []planned{}
			for i := 0; i < 300; i++ {
				plan = append(plan, planned{5*time.Millisecond + time.Duration(i)*200*time.Microsecond, uint32(6000001 + i%3), []string{"short", "wrong-code", "long", "bad-bcd"}[i%4]})
			}
			plan = append(plan, planned{90 * time.Millisecond, 6000001, "valid"}, planned{100 * time.Millisecond, 6000002, "valid"})
		}
		timeout := T
		if n == 2 { // every run: a client configured with a timeout of zero - nothing can be collected, and the call returns
			timeout = 0
			plan = []planned{{300 * time.Millisecond, 6000001, "valid"}}
		}
		sort.SliceStable(plan, func(i, j int) bool { return plan[i].delay < plan[j].delay })
		rs := newUDPResponder("127.0.0.1", func(req []byte) []step {
			out := []step{}
			for _, p := range plan {
				reply := messages.GetDeviceResponse{SerialNumber: types.SerialNumber(p.serial), IpAddress: net.IPv4(192, 168, 1, byte(p.serial%250)), SubnetMask: net.IPv4(255, 255, 255, 0),
					Gateway: net.IPv4(192, 168, 1, 1), MacAddress: types.MacAddress{0, 1, 2, 3, 4, byte(p.serial)}, Version: 0x0892, Date: types.ToDate(2024, 1, 1)}
				b, _ := codec.Marshal(reply)
				switch p.class {
				case "short":
					b = b[:40]
				case "wrong-code":
					b[1] = 0x92
				case "bad-bcd":
					b[28] = 0xaa
				case "long":
					b = append(b, 0x00)
				case "long64":
					b = append(b, b...)
				case "empty":
					b = b[:0]
				}
				out = append(out, step{p.delay, b, p.class == "valid-other-port"}) // a reply is a reply, whatever source port it left from
			}
			return out
		})
		ap := netip.MustParseAddrPort(rs.addr())
		u := uhppote.NewUHPPOTE(types.BindAddrFrom(netip.MustParseAddr("127.0.0.1"), 0), types.BroadcastAddrFrom(ap.Addr(), ap.Port()),
			types.ListenAddrFrom(netip.MustParseAddr("127.0.0.1"), 60001), timeout, nil, n%2 == 1)
		t0 := time.Now()
		devs, err := u.GetDevices()
		el := time.Since(t0)
		rs.close()
		want := []string{}
		for _, p := range plan {
			if p.class == "valid" && p.delay < timeout {
				want = append(want, fmt.Sprint(p.serial))
			}
		}
		got := []string{}
		for _, d := range devs {
			got = append(got, fmt.Sprintf("%d", uint32(d.SerialNumber)))
		}
		ps := []string{}
		for _, p := range plan {
			ps = append(ps, fmt.Sprintf("%d:%d:%s", p.delay.Milliseconds(), p.serial, p.class))
		}
		res := "ok"
		if err != nil {
			res = "err"
		}
		c.w.Emit(fmt.Sprintf("rdiscover T=%d | %s", timeout.Milliseconds(), strings.Join(ps, " ")), fmt.Sprintf("%s [%s] %s", res, strings.Join(got, ","), timeClassOf(el, timeout)), "rdiscover")
		_ = want
	}
	discoverDuringCall(c)
	discoverParallel(c)
	discoverStraddle(c)
	c.w.Notes = append(c.w.Notes, "rdiscover stream: GetDevices through the real driver against a responder that answers with 0..5 datagrams (valid / truncated / over-long with a valid 64-byte prefix / wrong function code / non-BCD date; duplicates of 3 serial numbers) at 3..100 ms or after the window, once 300 malformed datagrams followed by two valid replies; every second client with the debug flag on; the call lasts one timeout")
}
