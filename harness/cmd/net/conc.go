package main

import (
	"encoding/binary"
	"fmt"
	"net"
	"net/netip"
	"os"
	"path/filepath"
	"sync"
	"sync/atomic"
	"syscall"
	"time"

	"github.com/uhppoted/uhppote-core/messages"
	"github.com/uhppoted/uhppote-core/types"
	"github.com/uhppoted/uhppote-core/uhppote"

	codec "github.com/uhppoted/uhppote-core/encoding/UTO311-L0x"
	"verif/harness/internal/rng"
)

func init() { streams["conc"] = streamConc }

type nullListener struct {
	events, errors int64
	delay          time.Duration // a slow application callback: events are in flight when the listener is shut down
}

func (l *nullListener) OnConnected() {}
func (l *nullListener) OnEvent(*types.Status) {
	time.Sleep(l.delay)
	atomic.AddInt64(&l.events, 1)
}
func (l *nullListener) OnError(error) bool { atomic.AddInt64(&l.errors, 1); return true }

func seg(h1, m1, h2, m2 int) types.Segment {
	s, _ := types.HHmmFromString(fmt.Sprintf("%02d:%02d", h1, m1))
	e, _ := types.HHmmFromString(fmt.Sprintf("%02d:%02d", h2, m2))
	return types.Segment{Start: *s, End: *e}
}

func raceReports() int {
	dir := os.Getenv("VERIF_RACE_DIR")
	if dir == "" {
		return 0
	}
	m, _ := filepath.Glob(filepath.Join(dir, "race.*"))
	return len(m)
}

// streamConc: N goroutines share ONE client per path and hammer echo controllers; every reply is a
// function of its request, so a crossed reply is visible. Run under the race detector
// (binary built with -race, GORACE=log_path=$VERIF_RACE_DIR/race).
func streamConc(c *ctx) {
	r := c.r
	for round := 0; round < 2*c.scale; round++ {
		for _, bindMode := range []string{"0", "fixed"} {
			before := raceReports()
			bind := 0
			N, K := 8, 5
			if bindMode == "fixed" {
				bind = freePort()
				N, K = 4, 2
			}
			// three echo controllers per transport, adversarial delays below the timeout
			type ctl struct {
				serial uint32
				path   string
				ep     string
				close  func()
			}
			ctls := []ctl{}
			mkDelay := func(seed uint64) func() time.Duration {
				rr := rng.New(seed)
				var mu sync.Mutex
				return func() time.Duration {
					mu.Lock()
					defer mu.Unlock()
					return time.Duration(rr.Intn(int(T.Milliseconds())*4/10)) * time.Millisecond
				}
			}
			devices := []uhppote.Device{}
			for i := 0; i < 3; i++ {
				u := newUDPResponder("127.0.0.1", echo(mkDelay(r.U64())))
				ap := netip.MustParseAddrPort(u.addr())
				ctls = append(ctls, ctl{uint32(2000001 + i), "udp", u.addr(), u.close})
				devices = append(devices, uhppote.Device{DeviceID: uint32(2000001 + i), Address: types.ControllerAddrFrom(ap.Addr(), ap.Port()), Protocol: "udp"})
				if bindMode == "0" { // TCP with a fixed source port runs into finding D14
					t := newTCPResponder("127.0.0.1", echo(mkDelay(r.U64())))
					tp := netip.MustParseAddrPort(t.addr())
					ctls = append(ctls, ctl{uint32(3000001 + i), "tcp", t.addr(), t.close})
					devices = append(devices, uhppote.Device{DeviceID: uint32(3000001 + i), Address: types.ControllerAddrFrom(tp.Addr(), tp.Port()), Protocol: "tcp"})
				}
			}
			// one unconfigured controller reached by "broadcast" (unicast to its responder), which also answers discovery
			bc := newUDPResponder("127.0.0.1", func(req []byte) []step {
				if len(req) == 64 && req[1] == 0x94 && (req[4] != 0 || req[5] != 0 || req[6] != 0 || req[7] != 0) {
					// get-device for one controller: that controller answers
					reply := messages.GetDeviceResponse{SerialNumber: types.SerialNumber(binary.LittleEndian.Uint32(req[4:8])), IpAddress: net.IPv4(127, 0, 0, 1), SubnetMask: net.IPv4(255, 0, 0, 0),
						Gateway: net.IPv4(127, 0, 0, 1), MacAddress: types.MacAddress{1, 2, 3, 4, 5, 6}, Version: 0x0892, Date: types.ToDate(2024, 1, 1)}
					b, _ := codec.Marshal(reply)
					return []step{{5 * time.Millisecond, b, false}}
				}
				if len(req) == 64 && req[1] == 0x94 {
					reply := messages.GetDeviceResponse{SerialNumber: 4000001, IpAddress: net.IPv4(127, 0, 0, 1), SubnetMask: net.IPv4(255, 0, 0, 0),
						Gateway: net.IPv4(127, 0, 0, 1), MacAddress: types.MacAddress{1, 2, 3, 4, 5, 6}, Version: 0x0892, Date: types.ToDate(2024, 1, 1)}
					b, _ := codec.Marshal(reply)
					// (the second answer comes from the controller that is configured without an address)
					reply.SerialNumber = 4000003
					b3, _ := codec.Marshal(reply)
					return []step{{3 * time.Millisecond, b, false}, {20 * time.Millisecond, b3, false}, {T / 2, b, false}}
				}
				return echo(mkDelay(77))(req)
			})
			ctls = append(ctls, ctl{4000001, "broadcast", bc.addr(), bc.close})
			// ... and two more behind the same broadcast address: calls for different unconfigured controllers overlap on
			// the broadcast path, each waiting for the reply that carries its own serial number
			ctls = append(ctls, ctl{4000002, "broadcast", bc.addr(), func() {}}, ctl{4000003, "broadcast", bc.addr(), func() {}})
			// (4000003 is in the configuration, without an address: still the broadcast path)
			devices = append(devices, uhppote.Device{Name: "no-address", DeviceID: 4000003, Protocol: "udp"})
			bap := netip.MustParseAddrPort(bc.addr())
			lport := freePort()
			u := uhppote.NewUHPPOTE(types.BindAddrFrom(netip.MustParseAddr("127.0.0.1"), uint16(bind)),
				types.BroadcastAddrFrom(bap.Addr(), bap.Port()), types.ListenAddrFrom(netip.MustParseAddr("127.0.0.1"), uint16(lport)), T, devices, false)

			// values the goroutines share and hand to the library as arguments (one profile fanned out to every controller,
			// one card, one task, one format list): the library may read them, no more
			sharedProfile := types.TimeProfile{ID: 29, From: types.ToDate(2024, 1, 1), To: types.ToDate(2024, 12, 31),
				Weekdays: types.Weekdays{time.Monday: true, time.Friday: true},
				Segments: types.Segments{1: seg(8, 30, 24, 0), 2: seg(0, 0, 0, 0), 3: seg(13, 0, 24, 0), 4: seg(1, 0, 2, 0)}}
			sharedCard := types.Card{CardNumber: 8165538, From: types.ToDate(2024, 1, 1), To: types.ToDate(2024, 12, 31), Doors: map[uint8]uint8{1: 1, 3: 29}, PIN: 7531}
			sharedFormats := []types.CardFormat{types.Wiegand26, types.Wiegand26, types.WiegandAny}
			sharedTask := types.Task{Task: 1, Door: 1, From: types.ToDate(2024, 1, 1), To: types.ToDate(2024, 12, 31), Weekdays: types.Weekdays{time.Monday: true}}
			sharedCodes := append(make([]uint32, 0, 16), 1, 1000000, 7531)
			var own, crossed, errs int64
			var wg sync.WaitGroup
			for g := 0; g < N; g++ {
				wg.Add(1)
				go func(g int, seed uint64) {
					defer wg.Done()
					rr := rng.New(seed)
					for k := 0; k < K; k++ {
						ct := ctls[rr.Intn(len(ctls))]
						if k == 0 { // (the replies do not fit these requests: the calls fail after the exchange, which is all that is needed)
							u.SetTimeProfile(ct.serial, sharedProfile)
							u.PutCard(ct.serial, sharedCard, sharedFormats...)
							u.AddTask(ct.serial, sharedTask)
							u.SetDoorPasscodes(ct.serial, 1, sharedCodes...)
							u.GetDevice(ct.serial) // what a controller reports about itself is returned, not remembered
						}
						card := uint32(g*1000 + k + 1)
						res, err := getCard(u, ct.serial, card)
						switch {
						case err != nil:
							atomic.AddInt64(&errs, 1)
							if os.Getenv("VERIF_DEBUG") != "" {
								fmt.Fprintln(os.Stderr, "conc err", ct.path, err)
							}
						case res == nil || res.CardNumber != card:
							atomic.AddInt64(&crossed, 1)
						default:
							atomic.AddInt64(&own, 1)
						}
					}
				}(g, r.U64())
			}
			// one goroutine keeps asking for the device list and edits what it gets (it is the caller's to edit) while the
			// others make their calls
			wg.Add(1)
			go func() {
				defer wg.Done()
				for i := 0; i < 20; i++ {
					dl := u.DeviceList()
					for k, v := range dl {
						v.Name = "edited"
						dl[k] = v
						delete(dl, k+1)
					}
					dl[4999999] = uhppote.Device{DeviceID: 4999999}
					time.Sleep(2 * time.Millisecond)
				}
			}()
			// a second client, built WITHOUT a broadcast address (the default one is used: nobody answers there), used by
			// four goroutines and a discovery at once: nothing it resolves at call time may be stored in the client
			if bindMode == "0" {
				z := uhppote.NewUHPPOTE(types.BindAddrFrom(netip.MustParseAddr("127.0.0.1"), 0), types.BroadcastAddr{},
					types.ListenAddrFrom(netip.MustParseAddr("127.0.0.1"), uint16(freePort())), T/4, nil, false)
				for g := 0; g < 4; g++ {
					wg.Add(1)
					go func(g int) {
						defer wg.Done()
						z.GetDevice(uint32(4100001 + g))
						z.GetTime(uint32(4100001 + g))
					}(g)
				}
				wg.Add(1)
				go func() {
					defer wg.Done()
					z.GetDevices()
				}()
			}
			// discovery and the listener run alongside (bind port 0 only: discovery holds the port for a whole timeout)
			discovered := int64(-1)
			if bindMode == "0" {
				wg.Add(2)
				go func() {
					defer wg.Done()
					n := 0
					for i := 0; i < 2; i++ {
						if devs, err := u.GetDevices(); err == nil {
							n += len(devs)
						}
					}
					atomic.StoreInt64(&discovered, int64(n))
				}()
				go func() {
					defer wg.Done()
					for cycle := 0; cycle < 2; cycle++ {
						l := &nullListener{delay: time.Duration(cycle) * 15 * time.Millisecond}
						q := make(chan os.Signal, 1)
						done := make(chan error, 1)
						go func() { done <- u.Listen(l, q) }()
						time.Sleep(20 * time.Millisecond)
						if conn, err := net.Dial("udp4", fmt.Sprintf("127.0.0.1:%d", lport)); err == nil {
							ev := messages.GetStatusResponse{SerialNumber: 405419896}
							b, _ := codec.Marshal(ev)
							for i := 0; i < 5; i++ {
								conn.Write(b)
								conn.Write(b[:10])
							}
							conn.Close()
						}
						time.Sleep(20 * time.Millisecond)
						q <- syscall.SIGINT
						select {
						case <-done:
						case <-time.After(2 * time.Second):
						}
					}
				}()
			}
			wg.Wait()
			for _, ct := range ctls {
				ct.close()
			}
			time.Sleep(30 * time.Millisecond)
			races := raceReports() - before
			disc := ""
			if bindMode == "0" {
				// two discoveries, three replies each: the two early ones (3 ms, 20 ms) are always inside the window, the one at
				// half the timeout is there to have replies still arriving when the call returns - under load (race detector,
				// a busy machine) it may fall outside, which is not the library's doing
				disc = fmt.Sprintf(" discovered=%d", discovered)
				if discovered >= 4 && discovered <= 6 {
					disc = " discovered=4..6"
				}
			}
			c.w.Emit(fmt.Sprintf("conc bind=%s goroutines=%d calls=%d", bindMode, N, N*K),
				fmt.Sprintf("own=%d crossed=%d err=%d races=%d%s", own, crossed, errs, races, disc), "conc/bind-"+bindMode)
		}
	}
	c.w.Notes = append(c.w.Notes, "conc stream (run under the Go race detector): 8 goroutines x 5 calls (bind port 0) / 4 x 2 (fixed bind port) on ONE client against 3 UDP + 3 TCP + 3 broadcast-reached echo controllers with reply delays drawn from [0, 0.4 T); every reply is a function of its request, so a crossed reply shows; every goroutine also hands one shared profile, card, task, format list and passcode slice to SetTimeProfile / PutCard / AddTask / SetDoorPasscodes; discovery (3 replies, one at T/2) and two listen start/stop cycles with 10 datagrams each run alongside")
}
