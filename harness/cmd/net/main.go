// net: the loopback controller farm. Runs the REAL ut0311 driver (no hook on the transport)
// against scripted UDP/TCP responders on 127.0.0.x and writes the same three files as cmd/diff.
package main

import (
	"encoding/binary"
	"flag"
	"fmt"
	"io"
	"log"
	"net"
	"net/netip"
	"os"
	"runtime"
	"strings"
	"sync"
	"time"

	codec "github.com/uhppoted/uhppote-core/encoding/UTO311-L0x"
	"github.com/uhppoted/uhppote-core/messages"
	"github.com/uhppoted/uhppote-core/types"
	"github.com/uhppoted/uhppote-core/uhppote"

	"verif/harness/internal/cases"
	"verif/harness/internal/rng"
)

type ctx struct {
	w     *cases.Writer
	r     *rng.R
	tier  string
	scale int
}

var streams = map[string]func(*ctx){}

const T = 200 * time.Millisecond
const slack = 140 * time.Millisecond

func main() {
	stream := flag.String("stream", "", "stream name")
	seed := flag.Uint64("seed", 1, "PRNG seed")
	tier := flag.String("tier", "quick", "quick|thorough")
	scale := flag.Int("scale", 1, "case-count multiplier")
	out := flag.String("out", "/verif/.work", "output directory")
	only := flag.Int("only", -1, "emit only the case with this index (replay)")
	flag.Parse()
	f, ok := streams[*stream]
	if !ok {
		fmt.Fprintf(os.Stderr, "unknown stream %q\n", *stream)
		os.Exit(2)
	}
	// clients built with the debug flag print every message: results go to files, so drop what the library prints
	if devnull, err := os.OpenFile(os.DevNull, os.O_WRONLY, 0); err == nil {
		os.Stdout = devnull
	}
	log.SetOutput(io.Discard)
	c := &ctx{w: cases.New(*out, *stream), r: rng.New(*seed), tier: *tier, scale: *scale}
	c.w.Only = *only
	if *tier == "thorough" {
		c.scale *= 8
	}
	f(c)
	c.w.Close()
}

// ---------------------------------------------------------------------------------------------
// responders
// ---------------------------------------------------------------------------------------------

type step struct {
	delay time.Duration
	data  []byte
	other bool // sent from a second socket of the responder (same address, another source port)
}

type udpResponder struct {
	conn   *net.UDPConn
	mu     sync.Mutex
	got    [][]byte
	from   []string
	script func(req []byte) []step
}

func newUDPResponder(ip string, script func(req []byte) []step) *udpResponder {
	conn, err := net.ListenUDP("udp4", &net.UDPAddr{IP: net.ParseIP(ip), Port: 0})
	if err != nil {
		panic(err)
	}
	r := &udpResponder{conn: conn, script: script}
	go func() {
		buf := make([]byte, 2048)
		for {
			n, addr, err := conn.ReadFromUDP(buf)
			if err != nil {
				return
			}
			req := append([]byte{}, buf[:n]...)
			r.mu.Lock()
			r.got = append(r.got, req)
			r.from = append(r.from, addr.String())
			r.mu.Unlock()
			if r.script != nil {
				start := time.Now()
				go func(steps []step, addr *net.UDPAddr) {
					for _, s := range steps {
						if d := s.delay - time.Since(start); d > 0 {
							time.Sleep(d)
						}
						if s.other {
							if alt, err := net.ListenUDP("udp4", &net.UDPAddr{IP: conn.LocalAddr().(*net.UDPAddr).IP, Port: 0}); err == nil {
								alt.WriteToUDP(s.data, addr)
								alt.Close()
							}
							continue
						}
						conn.WriteToUDP(s.data, addr)
					}
				}(r.script(req), addr)
			}
		}
	}()
	return r
}

func (r *udpResponder) port() int    { return r.conn.LocalAddr().(*net.UDPAddr).Port }
func (r *udpResponder) addr() string { return r.conn.LocalAddr().String() }
func (r *udpResponder) close()       { r.conn.Close() }
func (r *udpResponder) received() int {
	r.mu.Lock()
	defer r.mu.Unlock()
	return len(r.got)
}

type tcpResponder struct {
	ln                net.Listener
	mu                sync.Mutex
	got               [][]byte
	from              []string
	script            func(req []byte) []step
	stall             bool
	reset             bool
	resetAfterRequest bool // take the request, then reset the connection instead of answering
}

func newTCPResponder(ip string, script func(req []byte) []step) *tcpResponder {
	r, err := newTCPResponderAt(ip, 0, script)
	if err != nil {
		panic(err)
	}
	return r
}

func newTCPResponderAt(ip string, port int, script func(req []byte) []step) (*tcpResponder, error) {
	ln, err := net.Listen("tcp4", fmt.Sprintf("%s:%d", ip, port))
	if err != nil {
		return nil, err
	}
	r := &tcpResponder{ln: ln, script: script}
	go func() {
		for {
			conn, err := ln.Accept()
			if err != nil {
				return
			}
			go func(conn net.Conn) {
				defer conn.Close()
				if r.reset {
					conn.(*net.TCPConn).SetLinger(0)
					return
				}
				buf := make([]byte, 2048)
				n, err := conn.Read(buf)
				if err != nil {
					return
				}
				req := append([]byte{}, buf[:n]...)
				r.mu.Lock()
				r.got = append(r.got, req)
				r.from = append(r.from, conn.RemoteAddr().String())
				r.mu.Unlock()
				if r.stall {
					time.Sleep(3 * T)
					return
				}
				if r.resetAfterRequest {
					conn.(*net.TCPConn).SetLinger(0)
					return
				}
				start := time.Now()
				for _, s := range r.script(req) {
					if d := s.delay - time.Since(start); d > 0 {
						time.Sleep(d)
					}
					conn.Write(s.data)
				}
				// let the client close first (avoids TIME_WAIT on the responder's side mattering)
				conn.SetReadDeadline(time.Now().Add(2 * T))
				conn.Read(buf)
			}(conn)
		}
	}()
	return r, nil
}

func (r *tcpResponder) port() int    { return r.ln.Addr().(*net.TCPAddr).Port }
func (r *tcpResponder) addr() string { return r.ln.Addr().String() }
func (r *tcpResponder) close()       { r.ln.Close() }
func (r *tcpResponder) received() int {
	r.mu.Lock()
	defer r.mu.Unlock()
	return len(r.got)
}

// ---------------------------------------------------------------------------------------------
// helpers
// ---------------------------------------------------------------------------------------------

// getCard: GetCardByID under a watchdog. A call that has not returned after 15 timeouts never will (the
// property bounds it by one): the case is reported as "hung" instead of blocking the whole stream.
var errHung = fmt.Errorf("hung: the call did not return within 15 timeouts")
var errPanic = fmt.Errorf("panic: the call crashed (recovered by the harness)")

func getCard(u uhppote.IUHPPOTE, serial, card uint32) (*types.Card, error) {
	type res struct {
		c   *types.Card
		err error
	}
	ch := make(chan res, 1)
	go func() {
		defer func() {
			if x := recover(); x != nil {
				ch <- res{nil, errPanic}
			}
		}()
		c, err := u.GetCardByID(serial, card)
		ch <- res{c, err}
	}()
	select {
	case r := <-ch:
		return r.c, r.err
	case <-time.After(15 * T):
		return nil, errHung
	}
}

// cardReply: a GetCardByID reply from controller `serial` for `card`
func cardReply(serial, card uint32) []byte {
	reply := messages.GetCardByIDResponse{SerialNumber: types.SerialNumber(serial), CardNumber: card,
		From: types.ToDate(2024, 1, 1), To: types.ToDate(2024, 12, 31), Door1: 1, Door2: 0, Door3: 29, Door4: 1, PIN: 7531}
	b, err := codec.Marshal(reply)
	if err != nil {
		panic(err)
	}
	return b
}

// echo: the reply is a function of the request (serial and card number are echoed)
func echo(delay func() time.Duration) func(req []byte) []step {
	return func(req []byte) []step {
		if len(req) != 64 {
			return nil
		}
		serial := binary.LittleEndian.Uint32(req[4:8])
		card := binary.LittleEndian.Uint32(req[8:12])
		return []step{{delay(), cardReply(serial, card), false}}
	}
}

func datagram(r *rng.R, class string, serial, card uint32) []byte {
	b := cardReply(serial, card)
	switch class {
	case "valid":
	case "short":
		b = b[:rng.Pick(r, 1, 8, 63)]
	case "long":
		b = append(b, r.Bytes(1)...)
	case "empty":
		b = b[:0]
	case "part1": // a valid reply delivered in two pieces: neither piece is a 64-byte message
		b = b[:10]
	case "part2":
		b = b[10:]
	case "long64":
		b = append(b, r.Bytes(64)...)
	case "wrong-serial":
		binary.LittleEndian.PutUint32(b[4:8], serial+1)
	case "serial-0":
		binary.LittleEndian.PutUint32(b[4:8], 0)
	case "wrong-code":
		b[1] = 0x5c
	case "wrong-som":
		b[0] = 0x18
	case "malformed":
		b[12] = 0x1a
	}
	return b
}

type clientCfg struct {
	path    string        // broadcast | udp | tcp
	bind    int           // 0 or a fixed port
	bindIP  string        // "" = 127.0.0.1
	debug   bool          // the client's debug flag (logging only: nothing observable may depend on it)
	timeout time.Duration // the client's timeout (T everywhere but in the zero-timeout cases)
}

func newRealClient(cfg clientCfg, serial uint32, endpoint string) uhppote.IUHPPOTE {
	ap := netip.MustParseAddrPort(endpoint)
	bindIP := cfg.bindIP
	if bindIP == "" {
		bindIP = "127.0.0.1"
	}
	bind := types.BindAddrFrom(netip.MustParseAddr(bindIP), uint16(cfg.bind))
	listen := types.ListenAddrFrom(netip.MustParseAddr("127.0.0.1"), 60001)
	var broadcast types.BroadcastAddr
	devices := []uhppote.Device{}
	switch cfg.path {
	case "broadcast":
		broadcast = types.BroadcastAddrFrom(ap.Addr(), ap.Port())
	case "any": // a documented protocol name that means "not tcp"; built the way NewDevice builds a controller
		devices = append(devices, uhppote.NewDevice("any", serial, types.ControllerAddrFrom(ap.Addr(), ap.Port()), "any", []string{}, nil))
	default:
		devices = append(devices, uhppote.Device{DeviceID: serial, Address: types.ControllerAddrFrom(ap.Addr(), ap.Port()), Protocol: cfg.path})
	}
	return uhppote.NewUHPPOTE(bind, broadcast, listen, cfg.timeout, devices, cfg.debug)
}

func timeClass(d time.Duration) string { return timeClassOf(d, T) }

// timeClassOf: the same against a timeout other than T
func timeClassOf(d time.Duration, T time.Duration) string {
	switch {
	case d < T-slack/2:
		return "<T"
	case d <= T+slack:
		return "=T"
	default:
		return ">T"
	}
}

func freePort() int {
	c, err := net.ListenUDP("udp4", &net.UDPAddr{IP: net.ParseIP("127.0.0.1"), Port: 0})
	if err != nil {
		panic(err)
	}
	defer c.Close()
	return c.LocalAddr().(*net.UDPAddr).Port
}

func openSockets() int {
	ents, err := os.ReadDir("/proc/self/fd")
	if err != nil {
		return -1
	}
	n := 0
	for _, e := range ents {
		if l, err := os.Readlink("/proc/self/fd/" + e.Name()); err == nil && strings.HasPrefix(l, "socket:") {
			n++
		}
	}
	return n
}

func settle() (int, int) {
	var fds, gor int
	for i := 0; i < 40; i++ {
		runtime.GC()
		time.Sleep(15 * time.Millisecond)
		f, g := openSockets(), runtime.NumGoroutine()
		if f == fds && g == gor && i > 2 {
			break
		}
		fds, gor = f, g
	}
	return fds, gor
}
