// Package fake: an in-memory transport driver handed to the real client through the `verif`
// hook (uhppote.VerifNew). It records every driver call and plays a scripted datagram sequence.
// It mirrors the contract of the real ut0311 driver (first datagram for the directed paths,
// callback filter for the broadcast path, no read for function code 0x96); the real driver is
// compared against the same contract by the loopback farm (cmd/net).
package fake

import (
	"fmt"
	"net"
	"os"
	"sync"
	"syscall"
)

type Call struct {
	Method string // broadcast | broadcast-to | udp | tcp | listen
	Addr   string
	Req    []byte
}

// what a read past its deadline returns in the real driver: an error that wraps os.ErrDeadlineExceeded
var ErrTimeout = fmt.Errorf("read udp: i/o timeout (%w)", os.ErrDeadlineExceeded)

type Driver struct {
	mu        sync.Mutex
	Calls     []Call
	Datagrams [][]byte // scripted arrivals for the next call(s)
	Consumed  int      // datagrams handed to the client so far
	Scribble  bool     // overwrite buffers after they were delivered (C17)
	Refuse    bool     // the directed paths fail the way a refused connection does (ECONNREFUSED)
	delivered [][]byte
}

func (d *Driver) record(m, addr string, req []byte) {
	d.mu.Lock()
	defer d.mu.Unlock()
	d.Calls = append(d.Calls, Call{m, addr, append([]byte{}, req...)})
}

// fresh returns a private copy of datagram i, the way a socket read fills a fresh buffer.
func (d *Driver) fresh(i int) []byte {
	b := append(make([]byte, 0, len(d.Datagrams[i])+8), d.Datagrams[i]...)
	d.mu.Lock()
	d.delivered = append(d.delivered, b)
	d.Consumed++
	d.mu.Unlock()
	return b
}

// ScribbleDelivered overwrites every buffer that was handed to the client.
func (d *Driver) ScribbleDelivered() {
	for _, b := range d.delivered {
		for i := range b {
			b[i] ^= 0xa5
		}
	}
}

func (d *Driver) Broadcast(addr *net.UDPAddr, req []byte) ([][]byte, error) {
	d.record("broadcast", addr.String(), req)
	if len(req) > 1 && req[1] == 0x96 {
		return [][]byte{}, nil
	}
	out := [][]byte{}
	for i := range d.Datagrams {
		out = append(out, d.fresh(i))
	}
	return out, nil
}

func (d *Driver) BroadcastTo(addr *net.UDPAddr, req []byte, cb func([]byte) bool) ([]byte, error) {
	d.record("broadcast-to", addr.String(), req)
	if len(req) > 1 && req[1] == 0x96 {
		return nil, nil
	}
	for i := range d.Datagrams {
		b := d.fresh(i)
		if cb(b) {
			return b, nil
		}
	}
	return nil, ErrTimeout
}

// ErrRefused: what a refused TCP connect / an ICMP port-unreachable on a connected UDP socket looks like
var ErrRefused = &net.OpError{Op: "dial", Net: "tcp", Err: os.NewSyscallError("connect", syscall.ECONNREFUSED)}

func (d *Driver) directed(m string, addr string, req []byte) ([]byte, error) {
	d.record(m, addr, req)
	if d.Refuse {
		return nil, ErrRefused
	}
	if len(req) > 1 && req[1] == 0x96 {
		return nil, nil
	}
	if len(d.Datagrams) == 0 {
		return nil, ErrTimeout
	}
	return d.fresh(0), nil
}

func (d *Driver) SendUDP(addr *net.UDPAddr, req []byte) ([]byte, error) {
	return d.directed("udp", addr.String(), req)
}

func (d *Driver) SendTCP(addr *net.TCPAddr, req []byte) ([]byte, error) {
	return d.directed("tcp", addr.String(), req)
}

// Listen plays the scripted datagrams through one reused buffer (as the real listener does),
// then waits for the shutdown signal.
func (d *Driver) Listen(signal chan any, closed chan any, cb func([]byte)) error {
	d.record("listen", "", nil)
	go func() {
		buf := make([]byte, 2048)
		for _, dg := range d.Datagrams {
			n := copy(buf, dg)
			cb(buf[:n])
			d.Consumed++
		}
		<-signal
		close(closed)
	}()
	return nil
}

func (c Call) String() string {
	return fmt.Sprintf("%s %s %x", c.Method, c.Addr, c.Req)
}
