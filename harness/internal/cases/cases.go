// Package cases: the line protocol writer. Every case is one input line (sent unchanged to the
// Lean model driver and to the Lean spec oracle) plus the canonicalised output the real
// implementation produced for it.
package cases

import (
	"bufio"
	"encoding/hex"
	"encoding/json"
	"fmt"
	"os"
	"path/filepath"
	"sort"
)

type Writer struct {
	dir, name string
	cf, of    *os.File
	cw, ow    *bufio.Writer
	N         int
	Tags      map[string]int
	Samples   []string
	distinct  map[uint64]struct{}
	Exhaustive bool
	Notes     []string
	Only      int // -1: all; otherwise emit only the case with this index (replay)
}

func New(dir, name string) *Writer {
	if err := os.MkdirAll(dir, 0o755); err != nil {
		panic(err)
	}
	cf, err := os.Create(filepath.Join(dir, name+".cases"))
	if err != nil {
		panic(err)
	}
	of, err := os.Create(filepath.Join(dir, name+".impl"))
	if err != nil {
		panic(err)
	}
	return &Writer{dir: dir, name: name, cf: cf, of: of, cw: bufio.NewWriterSize(cf, 1<<20), ow: bufio.NewWriterSize(of, 1<<20),
		Tags: map[string]int{}, distinct: map[uint64]struct{}{}, Only: -1}
}

func fnv(s string) uint64 {
	h := uint64(14695981039346656037)
	for i := 0; i < len(s); i++ {
		h ^= uint64(s[i])
		h *= 1099511628211
	}
	return h
}

// Emit records one case: the input line, the implementation's canonical output and the tags
// (branch / class labels) under which it is counted in the input-distribution histogram.
func (w *Writer) Emit(line, out string, tags ...string) {
	if w.Only >= 0 && w.N != w.Only {
		w.N++
		return
	}
	fmt.Fprintln(w.cw, line)
	fmt.Fprintln(w.ow, out)
	w.N++
	for _, t := range tags {
		w.Tags[t]++
	}
	w.distinct[fnv(line)] = struct{}{}
	if len(w.Samples) < 6 || (w.N%9973 == 0 && len(w.Samples) < 16) {
		w.Samples = append(w.Samples, line+"  =>  "+out)
	}
}

// Flush writes out what has been emitted so far (called before a phase that may take the process down, so that the
// cases before it are still compared).
func (w *Writer) Flush() {
	w.cw.Flush()
	w.ow.Flush()
}

func (w *Writer) Close() {
	w.cw.Flush()
	w.ow.Flush()
	w.cf.Close()
	w.of.Close()
	keys := []string{}
	for k := range w.Tags {
		keys = append(keys, k)
	}
	sort.Strings(keys)
	st := map[string]any{
		"stream":     w.name,
		"cases":      w.N,
		"distinct":   len(w.distinct),
		"histogram":  w.Tags,
		"samples":    w.Samples,
		"exhaustive": w.Exhaustive,
		"notes":      w.Notes,
	}
	b, _ := json.MarshalIndent(st, "", " ")
	os.WriteFile(filepath.Join(w.dir, w.name+".stats.json"), b, 0o644)
}

func Hex(b []byte) string {
	if len(b) == 0 {
		return "-"
	}
	return hex.EncodeToString(b)
}
