// Package rng: one splitmix64 state from which every random choice of a run is derived.
package rng

type R struct{ s uint64 }

func New(seed uint64) *R { return &R{s: seed*0x9e3779b97f4a7c15 + 0x1234567} }

func (r *R) U64() uint64 {
	r.s += 0x9e3779b97f4a7c15
	z := r.s
	z = (z ^ (z >> 30)) * 0xbf58476d1ce4e5b9
	z = (z ^ (z >> 27)) * 0x94d049bb133111eb
	return z ^ (z >> 31)
}

func (r *R) Intn(n int) int {
	if n <= 0 {
		return 0
	}
	return int(r.U64() % uint64(n))
}

func (r *R) U32() uint32 { return uint32(r.U64() >> 16) }
func (r *R) U8() uint8   { return uint8(r.U64() >> 24) }
func (r *R) Bool() bool  { return r.U64()&1 == 1 }

// Chance returns true with probability num/den.
func (r *R) Chance(num, den int) bool { return r.Intn(den) < num }

func (r *R) Bytes(n int) []byte {
	b := make([]byte, n)
	for i := range b {
		b[i] = r.U8()
	}
	return b
}

// Pick returns one of the arguments.
func Pick[T any](r *R, xs ...T) T { return xs[r.Intn(len(xs))] }

// Fork derives an independent generator (so that streams do not perturb each other).
func (r *R) Fork(tag uint64) *R { return New(r.U64() ^ tag*0xd6e8feb86659fd93) }
