export GOFLAGS=-mod=mod GOPROXY=off GOSUMDB=off GOTOOLCHAIN=local
sed -i "s|=> /repo|=> $VP_RUN_REPO|" harness/go.mod
export VERIF_REPO=$VP_RUN_REPO
./setup.sh > setup.log 2>&1 || { echo SETUP FAILED; tail -20 setup.log; }
for s in 23 24 25 26; do for p in 01 02 03 04 05 06 07 08 09 10 11 12 13 14 15 16 17 18; do VERIF_SEED=$s ./check C$p 2>&1 | grep -E "^(OK|VIOLATION|  )" | cut -c1-250; done; done
for s in 11; do for p in 01 02 03 04 05 06 07 08 09 10 11 12 13 14 15 16 17 18; do VERIF_SEED=$s ./check C$p --tier thorough 2>&1 | grep -E "^(OK|VIOLATION|  )" | cut -c1-250; done; done
echo SOAK DONE
