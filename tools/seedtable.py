#!/usr/bin/env python3
"""seedtable.py — rewrite the table of DESIGN.md section 15 from seeded/*/meta.json"""
import glob, json, os, re
ROOT = os.path.dirname(os.path.dirname(os.path.abspath(__file__)))
rows = []
DESC = json.load(open(os.path.join(ROOT, "seeded", "descriptions.json")))


def short(v):
    """one cell: how a run of the check ended"""
    out = [l for l in v.get("output", []) if not l.startswith("KNOWN-FINDING")]
    first = out[0] if out else ""
    if v["exit"] == 0:
        return "missed"
    if "no-failing-input-found" in first:
        return "caught, no concrete input"
    return "caught, concrete input"


for m in sorted(glob.glob(os.path.join(ROOT, "seeded", "C*", "meta.json"))):
    d = json.load(open(m))
    if d["id"] in DESC:            # the descriptions are kept in one file; the meta files carry them for convenience
        d["what"], d["needs"] = DESC[d["id"]]["what"], DESC[d["id"]]["needs"]
        json.dump(d, open(m, "w"), indent=1)
    firsts = [k for k in d if k.startswith("checks_at_")]
    for p, v in sorted(d.get("checks", {}).items()):
        out = [l for l in v.get("output", []) if not l.startswith("KNOWN-FINDING")]
        first = out[0] if out else ""
        if v["exit"] == 0:
            verdict = "**missed**"
        elif "no-failing-input-found" in first:
            why = next((l.strip() for l in out[1:] if "no longer checks" in l), "")
            why = re.sub(r"^no longer checks:\s*", "", why)[:110]
            verdict = "caught, no concrete input (" + why.replace("|", "/") + ")"
        else:
            mm = re.search(r"replay=\S*/(C\d\d)-\d+-([a-z]+)-", first)
            case = next((l.strip()[6:] for l in out[1:] if l.strip().startswith("case:")), "")
            verdict = "caught with a concrete input by the `%s` stream: `%s`" % (mm.group(2) if mm else "?", case[:70].replace("|", "/").replace("`", "'"))
        for k in firsts:
            if p in d[k]:
                verdict = "first run (%s): %s; now: " % (k[len("checks_at_"):], short(d[k][p])) + verdict
        rows.append("| %s | %s | %s | %s | %s |" % (d["id"], p, d.get("what", "").replace("|", "/"), d.get("needs", "").replace("|", "/"), verdict))
table = ["| id | check | change | needs | verdict of the committed quick check |", "|----|-------|--------|-------|--------------------------------------|"] + rows
n = len(rows); caught = sum(1 for r in rows if "**missed**" not in r); conc = sum(1 for r in rows if "concrete input by" in r)
summary = "\n%d seeded changes filed; %d caught (%d with a concrete failing input in the replay, %d as a broken proof obligation or correspondence with `no-failing-input-found`), %d missed.\n" % (n, caught, conc, caught - conc, n - caught)
p = os.path.join(ROOT, "DESIGN.md")
s = open(p).read()
block = "<!-- SEEDED-TABLE-BEGIN -->\n" + "\n".join(table) + "\n" + summary + "<!-- SEEDED-TABLE-END -->"
if "SEEDED-TABLE-PLACEHOLDER" in s:
    s = s.replace("SEEDED-TABLE-PLACEHOLDER", block)
else:
    s = re.sub(r"<!-- SEEDED-TABLE-BEGIN -->.*?<!-- SEEDED-TABLE-END -->", lambda _: block, s, flags=re.S)
open(p, "w").write(s)
print(summary)
