"""Per-property configuration of ./check: which Lean module holds the property theorems,
which harness streams tie the model to the code, what is trusted."""

TRUSTED_BASE = [
    "Lean 4.33.0 kernel (thorough tier: re-checked by leanchecker); axioms allowed in property theorems: propext, Classical.choice, Quot.sound only; no sorry/admit/native_decide/bv_decide/own axioms (grep + #print axioms on every run)",
    "translator /verif/harness/cmd/extract (go/ast -> Gen/*.lean): its reading of the Go syntax it pattern-matches",
    "correspondence harness /verif/harness/cmd/diff (+cmd/net): generators, canonicalisation, Go toolchain and runtime",
]

PROPS = {
    "C12": {
        "streams": [{"name": "bcd"}],
        "rule": "bcd stream: encode on every string of 0..4 (thorough 0..5) symbols over a 12-symbol alphabet (digit edges, '/' ':' 'a' 'é' ' ' NUL 0xff) plus random digit strings of length 0..39 with at most one random byte; decode on every byte slice of length 0..2 plus random BCD slices of length 3..12 with at most one bad nibble.",
        "trusted": ["modelled, not verified: Go's `for range string` rune decoding (a non-ASCII byte never yields a digit rune), strings.Builder"],
        "assumptions": ["strings are compared as UTF-8 byte sequences"],
    },
    "C16": {
        "streams": [{"name": "order", "env": {"TZ": "UTC"}}],
        "rule": "order stream: every adjacent-day pair (both directions, and equal) over six two-year spans, random date pairs incl. same-year and same-month; HH:mm: 13 edge values against all 1441 values both ways (thorough: all 1441^2 pairs) and random ints beyond the clock domain; date-time/instant pairs straddling second boundaries (and before 1970 for the model only); the SetTimeProfile segment guard through the hooked driver with the send counter.",
        "trusted": ["modelled, not verified: time.Time.Year/Month/Day return the civil fields of the value (C13 covers how values get their fields), time.UnixMilli"],
        "assumptions": ["the six comparison methods and DateTime.Before are hand-modelled (nested ifs copied from the source) and tied by correspondence only"],
    },
    "C18": {
        "streams": [{"name": "codec", "env": {"TZ": "UTC"}}],
        "rule": "codec stream on struct types built at run time with reflect.StructOf: all 19 kinds at every offset 2..63 as single-field layouts; random layouts of 1..12 packed fields (1 in 8 deliberately overlapping or overhanging: compared with the model only), decimal/hex/upper-case value tags on SOM, MsgType and byte fields, one level of embedding; per layout marshal of in-domain and wild values, unmarshal of the image, of mutated images (field bytes, non-BCD nibbles, header), of random payloads and wrong lengths; decode-then-scribble aliasing cases.",
        "trusted": ["modelled, not verified: reflect walking struct fields in declaration order, regexp on the two tag patterns, strconv.ParseUint, time.Format/ParseInLocation for the layouts 20060102, 20060102150405, 060102, 150405 in UTC, netip.AddrPort.MarshalBinary/UnmarshalBinary, net.IP.To4"],
        "assumptions": ["process time zone UTC in this stream (zones are C13's subject)", "round trip unmarshal(marshal v) = v is checked by oracle + correspondence, not yet a theorem"],
    },
}

NOT_APPLICABLE = {}

MANIFEST_TEXT = {
    "C12": {
        "text": "Theorems for all strings and all byte slices of any length: the Go loops, run with the switch tables regenerated from bcd.go, equal pack∘pad / unpack, reject exactly the non-digit runes / nibbles > 9, and are mutual inverses. Proof is the right level: the property is a pure ∀-statement over unbounded strings.",
        "note": "Trusted: Lean kernel; translator's reading of the two switch statements and the two size/index expressions; correspondence (exhaustive short strings + random) for the loop structure; Go's rune decoding is modelled (non-ASCII bytes never decode to a digit).",
    },
    "C16": {
        "text": "Theorems for all integer field values: Before = strict lexicographic order, After = its mirror image, Equals = field equality, exactly one of the three holds, transitivity, irreflexivity; DateTime.Before = whole-second comparison for instants from 1970 (with the counterexample before 1970 that motivates the restriction); the SetTimeProfile segment guard accepts iff end is not before start.",
        "note": "Trusted: Lean kernel; the comparison functions are hand-modelled as the nested ifs of the source and tied by the correspondence run (adjacent days, boundaries, all/edge HH:mm pairs, random); time.Time field accessors assumed.",
    },
    "C18": {
        "text": "Theorems for ALL layouts declarable with the tag grammar (well-formed: fields at non-overlapping offsets 2..63 inside the 64 bytes, decimal/hex tags, one level of embedding) and all in-domain values: Marshal of the model = the position-wise image of the specification (each field's arithmetic wire bytes at its offset, header from the tags, zero elsewhere) and never panics, also for a field ending on the last byte; Unmarshal never panics on any byte string; function-code and fixed-value tags are emitted and enforced; the slice readers copy. The codec model is parametrised by facts regenerated from the codec source and proved to be the ones the theorems need.",
        "note": "Trusted: Lean kernel; translator facts (slice widths, endianness, ParseUint bases, embedded error propagation, reader copies, header constants, tag regexes); the hand-written codec interpreter and type codecs are tied by correspondence on reflect.StructOf types (every kind at every offset, random layouts); decode(encode v) = v is established by oracle + correspondence, not yet by a theorem; Go reflect/regexp/strconv/time/netip assumed.",
    },
}
