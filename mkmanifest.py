#!/usr/bin/env python3
"""Regenerates MANIFEST.json from propcfg.py (run after editing propcfg.py)."""
import json, os, subprocess
from propcfg import PROPS, MANIFEST_TEXT, NOT_APPLICABLE
ROOT = os.path.dirname(os.path.abspath(__file__))
ids = [json.loads(l)["id"] for l in open(os.path.join(ROOT, "properties.jsonl"))]
hook_commits = subprocess.run(["git", "-C", "/repo", "log", "--format=%h %s"], capture_output=True, text=True).stdout.splitlines()
hook_commits = [l.split()[0] for l in hook_commits if l.split(" ", 1)[1].startswith("verif:")]
checks = []
for pid in ids:
    if pid not in PROPS:
        continue
    t = MANIFEST_TEXT[pid]
    checks.append({
        "property_id": pid,
        "quick_cmd": "./check %s --tier quick" % pid,
        "thorough_cmd": "./check %s --tier thorough" % pid,
        "evidence_file": "/verif/evidence/%s.json" % pid,
        "replay_cmd_template": "./check %s --replay {path}" % pid,
        "engine": "lean-proof",
        "level_claimed": {"category": "proof", "text": t["text"], "design_ref": t.get("design_ref", "DESIGN.md section 7, " + pid)},
        "level_note": t["note"] + " Every hand-modelled declaration is pinned to the source text it was read against: the translator regenerates a hash per declaration (Gen/Source.lean) and theorem %s_source_pinned (Pins/%s.lean) compares them with Model/Pins.lean; a changed declaration breaks it and the replay carries the diff." % (pid, pid),
        "technique": t.get("technique", "machine-checked proof in Lean 4 over a model tied to the source by a regenerating translator and a differential correspondence check"),
    })
m = {
    "version": 1,
    "setup_cmd": "./setup.sh",
    "hooks": {"guard": "verif", "enable": "go build -tags verif (the harness module replaces github.com/uhppoted/uhppote-core by /repo)",
              "baseline_off_cmd": "cd /repo && go test -vet=off -count=1 ./...",
              "source_commits": hook_commits, "add_only": True},
    "engines": [
        {"name": "lean-proof", "path": "/verif/lean", "serves_properties": [c["property_id"] for c in checks],
         "kind_free_text": "Lean 4 model + spec + property theorems (Props/Cnn.lean); Gen/*.lean regenerated from /repo by harness/cmd/extract on every run; compiled model driver and spec oracle"},
        {"name": "diff-harness", "path": "/verif/harness", "serves_properties": [c["property_id"] for c in checks],
         "kind_free_text": "Go harness (-tags verif) running the real code in-process and on loopback sockets; outputs compared line by line with the Lean model (correspondence) and the Lean spec (property oracle)"},
    ],
    "checks": checks,
    "not_applicable": [{"property_id": p, "reason": NOT_APPLICABLE.get(p, "check not built yet in this round; see DESIGN.md section 7 for the planned theorem and tie")} for p in ids if p not in PROPS],
    "notes": "Every check: regenerate Gen from /repo, lake build Props.Cnn and Pins.Cnn, axiom audit, differential run of the real code against the Lean model and the Lean spec. Known genuine defects are listed in known_findings.json. See DESIGN.md.",
}
json.dump(m, open(os.path.join(ROOT, "MANIFEST.json"), "w"), indent=1)
print("MANIFEST.json:", len(checks), "checks,", len(m["not_applicable"]), "not applicable")
