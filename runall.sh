#!/bin/sh
# run every registered check (quick by default) on the current tree; prints one line per check
cd "$(dirname "$0")"
tier=${1:-quick}
fail=0
for p in $(python3 -c "from propcfg import PROPS; print(' '.join(sorted(PROPS)))"); do
  out=$(./check $p --tier $tier 2>&1 | grep -E "^(OK|VIOLATION|KNOWN-FINDING)" | head -3 | cut -c1-200)
  echo "$out"
  case "$out" in *VIOLATION*) fail=1;; esac
done
exit $fail
