namespace SpikeFrame
abbrev Bytes := List UInt8

def writeAt : Bytes → Nat → Bytes → Bytes
  | dst, _, [] => dst
  | dst, off, b :: bs => writeAt (dst.set off b) (off+1) bs

def readAt (b : Bytes) (off n : Nat) : Bytes := (b.drop off).take n

@[simp] theorem length_writeAt (dst : Bytes) (off : Nat) (src : Bytes) :
    (writeAt dst off src).length = dst.length := by
  induction src generalizing dst off with
  | nil => rfl
  | cons b bs ih => simp [writeAt, ih]

theorem getElem?_writeAt (dst : Bytes) (off : Nat) (src : Bytes) (i : Nat)
    (h : off + src.length ≤ dst.length) :
    (writeAt dst off src)[i]? =
      if off ≤ i ∧ i < off + src.length then src[i - off]? else dst[i]? := by
  induction src generalizing dst off with
  | nil => simp [writeAt]; intro h1 h2; omega
  | cons b bs ih =>
    simp only [writeAt]
    rw [ih]
    · simp only [List.length_cons]
      by_cases h1 : off + 1 ≤ i ∧ i < off + 1 + bs.length
      · have h2 : off ≤ i ∧ i < off + (bs.length + 1) := by omega
        simp only [h1, h2, and_self, if_true]
        have : i - off = (i - (off+1)) + 1 := by omega
        rw [this, List.getElem?_cons_succ]
      · simp only [h1, if_false]
        by_cases h3 : i = off
        · subst h3
          have : i ≤ i ∧ i < i + (bs.length + 1) := by omega
          simp only [this, and_self, if_true, Nat.sub_self, List.getElem?_cons_zero]
          simp only [List.length_cons] at h
          rw [List.getElem?_set_self (by omega)]
        · have : ¬ (off ≤ i ∧ i < off + (bs.length + 1)) := by omega
          simp only [this, if_false]
          rw [List.getElem?_set_ne (by omega)]
    · simp only [List.length_set, List.length_cons] at *; omega

theorem readAt_writeAt_same (dst : Bytes) (off : Nat) (src : Bytes)
    (h : off + src.length ≤ dst.length) :
    readAt (writeAt dst off src) off src.length = src := by
  apply List.ext_getElem?
  intro i
  unfold readAt
  rw [List.getElem?_take]
  by_cases hi : i < src.length
  · simp only [hi, if_true, List.getElem?_drop]
    rw [getElem?_writeAt _ _ _ _ h]
    have : off ≤ off + i ∧ off + i < off + src.length := by omega
    simp only [this, and_self, if_true]
    congr 1; omega
  · simp only [hi, if_false]
    rw [List.getElem?_eq_none (by omega)]

theorem readAt_writeAt_disjoint (dst : Bytes) (off : Nat) (src : Bytes) (o n : Nat)
    (h : off + src.length ≤ dst.length)
    (hd : o + n ≤ off ∨ off + src.length ≤ o) :
    readAt (writeAt dst off src) o n = readAt dst o n := by
  apply List.ext_getElem?
  intro i
  unfold readAt
  rw [List.getElem?_take, List.getElem?_take]
  by_cases hi : i < n
  · simp only [hi, if_true, List.getElem?_drop]
    rw [getElem?_writeAt _ _ _ _ h]
    have : ¬ (off ≤ o + i ∧ o + i < off + src.length) := by omega
    simp only [this, if_false]
  · simp only [hi, if_false]
end SpikeFrame

open SpikeFrame

namespace SpikeGeneric

inductive Kind | u8 | u32 | bool
deriving DecidableEq, Repr

inductive Val | u8 (v : UInt8) | u32 (n : Nat) | bool (b : Bool)
deriving DecidableEq, Repr

def width : Kind → Nat
  | .u8 => 1 | .u32 => 4 | .bool => 1

def le32 (n : Nat) : Bytes :=
  [UInt8.ofNat (n % 256), UInt8.ofNat (n / 256 % 256), UInt8.ofNat (n / 65536 % 256), UInt8.ofNat (n / 16777216 % 256)]

def enc : Kind → Val → Bytes
  | .u8, .u8 v => [v]
  | .u32, .u32 v => le32 v
  | .bool, .bool b => [if b then 1 else 0]
  | k, _ => List.replicate (width k) 0     -- kind mismatch: Go would not type-check; zero

def dec : Kind → Bytes → Option Val
  | .u8, [v] => some (.u8 v)
  | .u32, [a, b, c, d] => some (.u32 (a.toNat + 256 * b.toNat + 65536 * c.toNat + 16777216 * d.toNat))
  | .bool, [v] => if v = 1 then some (.bool true) else if v = 0 then some (.bool false) else none
  | _, _ => none

def HasKind : Kind → Val → Prop
  | .u8, .u8 _ => True
  | .u32, .u32 n => n < 4294967296
  | .bool, .bool _ => True
  | _, _ => False

inductive Forall2 {α β} (R : α → β → Prop) : List α → List β → Prop
  | nil : Forall2 R [] []
  | cons {a b as bs} : R a b → Forall2 R as bs → Forall2 R (a :: as) (b :: bs)

structure Field where
  off : Nat
  kind : Kind
deriving DecidableEq, Repr

/-- the two laws every kind must satisfy; the generic theorems use nothing else -/
theorem enc_length (k : Kind) (v : Val) : (enc k v).length = width k := by
  cases k <;> cases v <;> simp [enc, width, le32]

theorem le32_roundtrip (n : Nat) (h : n < 4294967296) :
    (UInt8.ofNat (n % 256)).toNat + 256 * (UInt8.ofNat (n / 256 % 256)).toNat
      + 65536 * (UInt8.ofNat (n / 65536 % 256)).toNat + 16777216 * (UInt8.ofNat (n / 16777216 % 256)).toNat = n := by
  simp only [UInt8.toNat_ofNat']
  omega

theorem dec_enc (k : Kind) (v : Val) (h : HasKind k v) : dec k (enc k v) = some v := by
  cases k <;> cases v <;> simp [HasKind] at h <;> simp [enc, dec, le32]
  · omega
  · rename_i b; cases b <;> simp

def marshal : List Field → List Val → Bytes → Bytes
  | f :: fs, v :: vs, buf => marshal fs vs (writeAt buf f.off (enc f.kind v))
  | _, _, buf => buf

def unmarshal : List Field → Bytes → Option (List Val)
  | [], _ => some []
  | f :: fs, buf =>
    match dec f.kind (readAt buf f.off (width f.kind)), unmarshal fs buf with
    | some v, some vs => some (v :: vs)
    | _, _ => none

def InBounds (n : Nat) (fs : List Field) : Prop := ∀ f ∈ fs, f.off + width f.kind ≤ n
def disjointFrom (o n : Nat) (fs : List Field) : Prop :=
  ∀ f ∈ fs, o + n ≤ f.off ∨ f.off + width f.kind ≤ o
def Disjoint : List Field → Prop
  | [] => True
  | f :: fs => disjointFrom f.off (width f.kind) fs ∧ Disjoint fs

theorem length_marshal (fs : List Field) (vs : List Val) (buf : Bytes) :
    (marshal fs vs buf).length = buf.length := by
  induction fs generalizing vs buf with
  | nil => cases vs <;> rfl
  | cons f fs ih =>
    cases vs with
    | nil => rfl
    | cons v vs => simp [marshal, ih]

/-- frame: a range disjoint from every field is untouched by marshal -/
theorem readAt_marshal_frame (fs : List Field) (vs : List Val) (buf : Bytes) (o n : Nat)
    (hb : InBounds buf.length fs) (hd : disjointFrom o n fs) :
    readAt (marshal fs vs buf) o n = readAt buf o n := by
  induction fs generalizing vs buf with
  | nil => cases vs <;> rfl
  | cons f fs ih =>
    cases vs with
    | nil => rfl
    | cons v vs =>
      simp only [marshal]
      rw [ih]
      · apply readAt_writeAt_disjoint
        · rw [enc_length]; exact hb f (by simp)
        · rw [enc_length]; exact hd f (by simp)
      · intro g hg; simp only [length_writeAt]; exact hb g (by simp [hg])
      · intro g hg; exact hd g (by simp [hg])

theorem roundtrip (fs : List Field) (vs : List Val) (buf : Bytes)
    (hb : InBounds buf.length fs) (hd : Disjoint fs)
    (hk : Forall2 (fun f v => HasKind f.kind v) fs vs) :
    unmarshal fs (marshal fs vs buf) = some vs := by
  induction hk generalizing buf with
  | nil => rfl
  | @cons f v fs vs hfv _ ih =>
    simp only [marshal, unmarshal]
    have hbf : f.off + width f.kind ≤ buf.length := hb f (by simp)
    have hb' : InBounds (writeAt buf f.off (enc f.kind v)).length fs := by
      intro g hg; simp only [length_writeAt]; exact hb g (by simp [hg])
    rw [ih _ hb' hd.2]
    rw [readAt_marshal_frame fs vs _ f.off (width f.kind) hb' hd.1]
    have : readAt (writeAt buf f.off (enc f.kind v)) f.off (width f.kind) = enc f.kind v := by
      have := readAt_writeAt_same buf f.off (enc f.kind v) (by rw [enc_length]; exact hbf)
      rw [enc_length] at this; exact this
    rw [this, dec_enc _ _ hfv]

end SpikeGeneric
