/-! Shared fixed bind port, abstract event system (C08 "replies are never crossed").
    A call acquires the port (guard.Lock + socket open + send, idealised as one instant),
    its controller's reply is then in flight; `arrive j` delivers reply j to whoever owns the
    port; `timeout k` is call k's deadline firing. -/
namespace SpikeCross

inductive Ev
  | acquire (k : Nat)      -- lock granted, socket bound to the shared port, request k sent
  | arrive (j : Nat)       -- reply to request j reaches the shared port
  | timeout (k : Nat)      -- deadline of call k fires
deriving DecidableEq, Repr

structure St where
  owner    : Option Nat        -- call currently holding the port (socket open)
  inflight : List Nat          -- requests sent whose reply has not arrived yet
  crossed  : Bool              -- some call accepted a reply that was not its own
  lost     : List Nat          -- replies that arrived while nobody (or nobody waiting) listened
deriving Repr

def init : St := ⟨none, [], false, []⟩

/-- the code: the owner accepts the first datagram that reaches its socket (same controller and
    function code assumed - the worst case for crossing) and releases the port -/
def step (s : St) : Ev → St
  | .acquire k =>
      match s.owner with
      | none   => { s with owner := some k, inflight := k :: s.inflight }
      | some _ => s                              -- mutex: cannot happen, ignored
  | .arrive j =>
      if j ∈ s.inflight then
        match s.owner with
        | some k => { s with owner := none, inflight := s.inflight.erase j,
                             crossed := s.crossed || (k != j) }
        | none   => { s with inflight := s.inflight.erase j, lost := j :: s.lost }
      else s
  | .timeout k =>
      if s.owner = some k then { s with owner := none } else s

def run (s : St) (es : List Ev) : St := es.foldl step s

/-- Invariant: every reply in flight belongs to the call that owns the port. -/
def Inv (s : St) : Prop :=
  s.crossed = false ∧ s.lost = [] ∧
  (∀ j ∈ s.inflight, s.owner = some j) ∧ s.inflight.length ≤ 1

/-- Timing hypothesis that follows from "deadline = lock time + T" and "controller answers
    within δ < T": a deadline never fires while the call's own reply is still in flight. -/
def TimelyTrace : St → List Ev → Prop
  | _, [] => True
  | s, e :: es =>
      (match e with
       | .timeout k => k ∉ s.inflight
       | _ => True) ∧ TimelyTrace (step s e) es

theorem step_inv (s : St) (e : Ev) (h : Inv s)
    (ht : match e with | .timeout k => k ∉ s.inflight | _ => True) : Inv (step s e) := by
  obtain ⟨hc, hl, ho, hn⟩ := h
  cases e with
  | acquire k =>
    unfold step
    cases hown : s.owner with
    | some o => simp [Inv, hown, hc, hl]; exact ⟨fun j hj => by simpa [hown] using ho j hj, hn⟩
    | none =>
      have hemp : s.inflight = [] := by
        cases hi : s.inflight with
        | nil => rfl
        | cons a as =>
          have := ho a (by simp [hi]); simp [hown] at this
      simp [Inv, hc, hl, hemp]
  | arrive j =>
    unfold step
    by_cases hj : j ∈ s.inflight
    · have hoj := ho j hj
      have hsingle : s.inflight = [j] := by
        cases hi : s.inflight with
        | nil => simp [hi] at hj
        | cons a as =>
          cases as with
          | nil => simp [hi] at hj; simp [hj]
          | cons b bs => simp [hi] at hn
      simp [hj, hoj, Inv, hc, hl, hsingle]
    · simp [hj, Inv, hc, hl]; exact ⟨ho, hn⟩
  | timeout k =>
    unfold step
    by_cases hk : s.owner = some k
    · have hemp : s.inflight = [] := by
        cases hi : s.inflight with
        | nil => rfl
        | cons a as =>
          have h1 := ho a (by simp [hi])
          have : a = k := by rw [hk] at h1; exact (Option.some.inj h1).symm
          subst this
          simp [hi] at ht
      simp [hk, Inv, hc, hl, hemp]
    · simp [hk, Inv, hc, hl]; exact ⟨ho, hn⟩

theorem run_inv (s : St) (es : List Ev) (h : Inv s) (ht : TimelyTrace s es) : Inv (run s es) := by
  induction es generalizing s with
  | nil => exact h
  | cons e es ih =>
    simp only [run, List.foldl_cons]
    exact ih _ (step_inv s e h ht.1) ht.2

/-- every reachable state under timely deadlines: nobody ever took a reply that was not its own,
    and no reply was lost -/
theorem never_crossed (es : List Ev) (ht : TimelyTrace init es) :
    (run init es).crossed = false ∧ (run init es).lost = [] :=
  let h := run_inv init es (by simp [Inv, init]) ht
  ⟨h.1, h.2.1⟩

/-- non-vacuity + the defect: with the deadline computed before waiting for the lock (D13),
    call 1's deadline can fire with its reply in flight, and call 2 then takes reply 1 -/
example : TimelyTrace init [.acquire 1, .arrive 1, .acquire 2, .arrive 2] := by
  simp [TimelyTrace, step, init]
example : (run init [.acquire 1, .timeout 1, .acquire 2, .arrive 1]).crossed = true := by
  decide

end SpikeCross
