namespace Spike

abbrev Byte := UInt8
abbrev Bytes := List UInt8

def le32 (x : UInt32) : Bytes :=
  [x.toUInt8, (x >>> 8).toUInt8, (x >>> 16).toUInt8, (x >>> 24).toUInt8]

def b2 (b : Bool) : Bytes := [if b then 1 else 0]

/-- write `src` into `dst` at `off` (Go `copy(dst[off:off+len(src)], src)`), caller guarantees bounds -/
def writeAt : Bytes → Nat → Bytes → Bytes
  | dst, _, [] => dst
  | dst, off, b :: bs => writeAt (dst.set off b) (off+1) bs

inductive Kind | u8 | u32 | bool
deriving DecidableEq, Repr

inductive Val | u8 (v : UInt8) | u32 (v : UInt32) | bool (b : Bool)

structure Field where
  off : Nat
  kind : Kind
deriving DecidableEq, Repr

def encVal : Val → Bytes
  | .u8 v => [v]
  | .u32 v => le32 v
  | .bool b => b2 b

def marshal (code : UInt8) (fs : List (Nat × Val)) : Bytes :=
  let buf := (List.replicate 64 (0:UInt8)).set 0 0x17 |>.set 1 code
  fs.foldl (fun b (o, v) => writeAt b o (encVal v)) buf

def zeros (n : Nat) : Bytes := List.replicate n 0

/-- protocol spec, concatenative -/
def specPutCardish (sn card : UInt32) (d1 d2 : UInt8) (ok : Bool) : Bytes :=
  [0x17, 0x50, 0, 0] ++ le32 sn ++ le32 card ++ [d1, d2] ++ b2 ok ++ zeros 49

theorem putcardish (sn card : UInt32) (d1 d2 : UInt8) (ok : Bool) :
    marshal 0x50 [(4, .u32 sn), (8, .u32 card), (12, .u8 d1), (13, .u8 d2), (14, .bool ok)]
      = specPutCardish sn card d1 d2 ok := by
  rfl

theorem putcardish' (sn card : UInt32) (d1 d2 : UInt8) (ok : Bool) :
    marshal 0x50 [(4, .u32 sn), (8, .u32 card), (12, .u8 d1), (13, .u8 d2), (14, .bool ok)]
      = specPutCardish sn card d1 d2 ok := by
  simp [marshal, specPutCardish, writeAt, encVal, le32, b2, zeros, List.replicate]

end Spike
