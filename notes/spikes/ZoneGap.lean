namespace SpikeGap

structure Zone where
  off : Int → Int
  lo  : Int → Int
  hi  : Int → Int

def goDate (z : Zone) (c : Int) : Int :=
  let o := z.off c
  if o = 0 then c else
  let utc := c - o
  let o' := if utc < z.lo c ∨ utc ≥ z.hi c then z.off utc else o
  c - o'

def civil (z : Zone) (u : Int) : Int := u + z.off u

structure OneTransition (z : Zone) (c D T A B : Int) : Prop where
  before : ∀ v, c - D ≤ v → v ≤ c + D → v < T → z.off v = A ∧ z.hi v = T ∧ z.lo v ≤ c - D
  after  : ∀ v, c - D ≤ v → v ≤ c + D → T ≤ v → z.off v = B ∧ z.lo v = T ∧ c + D < z.hi v
  boundA : -D ≤ A ∧ A ≤ D
  boundB : -D ≤ B ∧ B ≤ D

/-- civil time c falls in the gap of a spring-forward transition: T + A ≤ c < T + B -/
def InGap (c T A B : Int) : Prop := T + A ≤ c ∧ c < T + B

/-- west of the transition instant (c < T, e.g. negative offsets): shifted BACK by the gap -/
theorem goDate_gap_west (z : Zone) (c D T A B : Int) (h : OneTransition z c D T A B)
    (hg : InGap c T A B) (hw : c < T) : civil z (goDate z c) = c - (B - A) := by
  unfold civil InGap at *
  have hA := h.boundA
  have hB := h.boundB
  have hc1 := h.before c (by omega) (by omega)
  have hcA2 := h.after (c - A) (by omega) (by omega)
  have hcB1 := h.before (c - B) (by omega) (by omega)
  unfold goDate
  obtain ⟨e1, e2, e3⟩ := hc1 hw
  simp only [e1, e2]
  have hA0 : A ≠ 0 := by omega
  simp only [hA0, if_false]
  have hin : c - A < z.lo c ∨ c - A ≥ T := Or.inr (by omega)
  simp only [hin, if_true]
  obtain ⟨f1, _, _⟩ := hcA2 (by omega)
  simp only [f1]
  obtain ⟨k1, _, _⟩ := hcB1 (by omega)
  rw [k1]; omega

/-- east (T ≤ c, e.g. positive offsets): shifted FORWARD by the gap, same civil day -/
theorem goDate_gap_east (z : Zone) (c D T A B : Int) (h : OneTransition z c D T A B)
    (hg : InGap c T A B) (he : T ≤ c) : civil z (goDate z c) = c + (B - A) := by
  unfold civil InGap at *
  have hA := h.boundA
  have hB := h.boundB
  have hc2 := h.after c (by omega) (by omega)
  have hcB1 := h.before (c - B) (by omega) (by omega)
  have hcA2 := h.after (c - A) (by omega) (by omega)
  unfold goDate
  obtain ⟨e1, e2, e3⟩ := hc2 he
  simp only [e1, e2]
  have hB0 : B ≠ 0 := by omega
  simp only [hB0, if_false]
  have hin : c - B < T ∨ c - B ≥ z.hi c := Or.inl (by omega)
  simp only [hin, if_true]
  obtain ⟨f1, _, _⟩ := hcB1 (by omega)
  simp only [f1]
  obtain ⟨k1, _, _⟩ := hcA2 (by omega)
  rw [k1]; omega

end SpikeGap
