namespace SpikeZone

structure Zone where
  off : Int → Int
  lo  : Int → Int
  hi  : Int → Int

def goDate (z : Zone) (c : Int) : Int :=
  let o := z.off c
  if o = 0 then c else
  let utc := c - o
  let o' := if utc < z.lo c ∨ utc ≥ z.hi c then z.off utc else o
  c - o'

def civil (z : Zone) (u : Int) : Int := u + z.off u

structure OneTransition (z : Zone) (c D T A B : Int) : Prop where
  before : ∀ v, c - D ≤ v → v ≤ c + D → v < T → z.off v = A ∧ z.hi v = T ∧ z.lo v ≤ c - D
  after  : ∀ v, c - D ≤ v → v ≤ c + D → T ≤ v → z.off v = B ∧ z.lo v = T ∧ c + D < z.hi v
  boundA : -D ≤ A ∧ A ≤ D
  boundB : -D ≤ B ∧ B ≤ D
  bound  : ∀ v, -D ≤ z.off v ∧ z.off v ≤ D

theorem goDate_exact (z : Zone) (c D T A B : Int) (h : OneTransition z c D T A B)
    (hex : ∃ u, civil z u = c) : civil z (goDate z c) = c := by
  obtain ⟨u, hu⟩ := hex
  unfold civil at *
  have hA := h.boundA
  have hB := h.boundB
  have hub := h.bound u
  have hD : 0 ≤ D := by omega
  -- facts at u
  have hu1 := h.before u (by omega) (by omega)
  have hu2 := h.after u (by omega) (by omega)
  -- facts at c
  have hc1 := h.before c (by omega) (by omega)
  have hc2 := h.after c (by omega) (by omega)
  -- facts at c - A and c - B
  have hcA1 := h.before (c - A) (by omega) (by omega)
  have hcA2 := h.after (c - A) (by omega) (by omega)
  have hcB1 := h.before (c - B) (by omega) (by omega)
  have hcB2 := h.after (c - B) (by omega) (by omega)
  unfold goDate
  by_cases hcT : c < T
  · obtain ⟨e1, e2, e3⟩ := hc1 hcT
    simp only [e1, e2]
    by_cases hA0 : A = 0
    · simp [hA0]; rw [e1]; omega
    · simp only [hA0, if_false]
      by_cases hin : c - A < z.lo c ∨ c - A ≥ T
      · simp only [hin, if_true]
        rcases hin with hin | hin
        · omega
        · obtain ⟨f1, f2, f3⟩ := hcA2 hin
          simp only [f1]
          -- result c - B ; need off (c-B) = B, i.e. c - B ≥ T
          by_cases huT : u < T
          · obtain ⟨g1, _, _⟩ := hu1 huT
            omega
          · obtain ⟨g1, _, _⟩ := hu2 (by omega)
            obtain ⟨k1, _, _⟩ := hcB2 (by omega)
            rw [k1]; omega
      · simp only [hin, if_false]
        have : c - A < T := by omega
        obtain ⟨k1, _, _⟩ := hcA1 this
        rw [k1]; omega
  · have hcT' : T ≤ c := by omega
    obtain ⟨e1, e2, e3⟩ := hc2 hcT'
    simp only [e1, e2]
    by_cases hB0 : B = 0
    · simp [hB0]; rw [e1]; omega
    · simp only [hB0, if_false]
      by_cases hin : c - B < T ∨ c - B ≥ z.hi c
      · simp only [hin, if_true]
        rcases hin with hin | hin
        · obtain ⟨f1, f2, f3⟩ := hcB1 hin
          simp only [f1]
          by_cases huT : u < T
          · obtain ⟨g1, _, _⟩ := hu1 huT
            obtain ⟨k1, _, _⟩ := hcA1 (by omega)
            rw [k1]; omega
          · obtain ⟨g1, _, _⟩ := hu2 (by omega)
            omega
        · omega
      · simp only [hin, if_false]
        have : T ≤ c - B := by omega
        obtain ⟨k1, _, _⟩ := hcB2 this
        rw [k1]; omega

end SpikeZone
